package main

// Replay of solver models against the real code: the function is called with the model's inputs inside an
// in-package test injected with `go test -overlay`; the violated clause is evaluated at run time, either after
// the call (ensures), by a check inserted in an overlay copy of the source file (call-site assertions, callee
// preconditions), or by observing the panic (safety obligations). Nothing is written to /repo.

import (
	"encoding/json"
	"fmt"
	"go/ast"
	"go/token"
	"go/types"
	"os"
	"os/exec"
	"path/filepath"
	"regexp"
	"strconv"
	"strings"

	"golang.org/x/tools/go/ast/astutil"
	"golang.org/x/tools/go/ssa"
)

// parseModel reads "((name value) (name value) ...)" from a get-value answer.
func parseModel(out string) map[string]string {
	m := map[string]string{}
	i := strings.Index(out, "((")
	if i < 0 {
		return m
	}
	s := out[i+1:]
	depth := 0
	start := -1
	for j := 0; j < len(s); j++ {
		switch s[j] {
		case '(':
			if depth == 0 {
				start = j
			}
			depth++
		case ')':
			depth--
			if depth == 0 && start >= 0 {
				pair := s[start+1 : j]
				if k := strings.IndexAny(pair, " \t\n"); k > 0 {
					m[pair[:k]] = strings.TrimSpace(pair[k+1:])
				}
				start = -1
			}
			if depth < 0 {
				return m
			}
		}
	}
	return m
}

// smtNum converts an SMT value "5", "(- 5)", "(/ 1.0 3.0)", "2.5", "(- (/ 1 2))" to a Go literal.
func smtNum(v string, isFloat bool) (string, bool) {
	v = strings.TrimSpace(v)
	neg := false
	for strings.HasPrefix(v, "(- ") && strings.HasSuffix(v, ")") {
		v = strings.TrimSpace(v[3 : len(v)-1])
		neg = !neg
	}
	var lit string
	if strings.HasPrefix(v, "(/ ") {
		parts := strings.Fields(v[3 : len(v)-1])
		if len(parts) != 2 {
			return "", false
		}
		lit = fmt.Sprintf("(float64(%s) / float64(%s))", strings.TrimSuffix(parts[0], ".0"), strings.TrimSuffix(parts[1], ".0"))
	} else if regexp.MustCompile(`^[0-9]+(\.[0-9]+)?$`).MatchString(v) {
		lit = v
		if !isFloat {
			lit = strings.TrimSuffix(lit, ".0")
		}
		if strings.HasSuffix(v, "?") {
			lit = strings.TrimSuffix(lit, "?")
		}
	} else if v == "true" || v == "false" {
		return v, true
	} else {
		return "", false
	}
	if neg {
		lit = "-" + lit
	}
	return lit, true
}

var safetyKinds = map[string]bool{"index": true, "slice": true, "nil-deref": true, "panic": true, "div-zero": true, "type-assert": true, "nil-map": true, "makeslice-len": true}

type replayPlan struct {
	pkgDir   string
	pkgName  string
	testSrc  string
	overlays map[string]string // original path -> replacement content
}

func tryReplay(o checkOpts, e *Engine, results []*funcResult, ob *Obligation, v *violation) bool {
	var fr *funcResult
	for _, r := range results {
		if r.ctx.fn == ob.Fn {
			fr = r
		}
	}
	if fr == nil || fr.fn == nil {
		v.Replay = "function not found for replay"
		return false
	}
	// functions with string parameters: bounded search over a seed alphabet (strings are abstract in the models)
	if (ob.Kind == "ensures" || safetyKinds[ob.Kind]) && ob.Result != "unsat" {
		if plan, why := e.planSearchReplay(fr, ob); plan != nil {
			out, failed, err := runReplay(o, plan)
			v.ReplayTest = plan.testSrc
			if err == nil && failed {
				v.Replay = "REPRODUCED on the real code by bounded search over the seed inputs:\n" + trunc(out, 1500)
				v.Reproduced = true
				return true
			}
			if err != nil {
				v.Replay = "search replay could not run: " + err.Error() + "\n" + trunc(out, 1500)
			} else {
				v.Replay = "bounded search over the seed inputs found no failing input:\n" + trunc(out, 600)
			}
			if ob.Result != "sat" || ob.Model == "" {
				return false
			}
		} else if ob.Result != "sat" || ob.Model == "" {
			v.Replay = "the solver gave no model (" + ob.Result + "); " + why
			return false
		}
	}
	if ob.Result != "sat" || ob.Model == "" {
		v.Replay = "the solver gave no model (" + ob.Result + ")"
		return false
	}
	plan, why := e.planReplay(fr, ob)
	if plan == nil {
		v.Replay = "no replay: " + why
		return false
	}
	out, failed, err := runReplay(o, plan)
	v.ReplayTest = plan.testSrc
	if err != nil {
		v.Replay = "replay could not run: " + err.Error() + "\n" + trunc(out, 1500)
		return false
	}
	if failed {
		v.Replay = "REPRODUCED on the real code:\n" + trunc(out, 1500)
		v.Reproduced = true
		return true
	}
	v.Replay = "model did not reproduce on the real code (spurious under the abstraction, or floating point vs reals):\n" + trunc(out, 800)
	return false
}

func runReplay(o checkOpts, p *replayPlan) (string, bool, error) {
	tmp, err := os.MkdirTemp("", "d2vc-replay")
	if err != nil {
		return "", false, err
	}
	defer os.RemoveAll(tmp)
	ov := struct {
		Replace map[string]string `json:"Replace"`
	}{Replace: map[string]string{}}
	testPath := filepath.Join(p.pkgDir, "zz_verif_replay_test.go")
	tf := filepath.Join(tmp, "replay_test.go")
	_ = os.WriteFile(tf, []byte(p.testSrc), 0o644)
	ov.Replace[testPath] = tf
	i := 0
	for orig, content := range p.overlays {
		i++
		f := filepath.Join(tmp, fmt.Sprintf("src%d.go", i))
		_ = os.WriteFile(f, []byte(content), 0o644)
		ov.Replace[orig] = f
	}
	data, _ := json.Marshal(ov)
	ovf := filepath.Join(tmp, "overlay.json")
	_ = os.WriteFile(ovf, data, 0o644)
	cmd := exec.Command("go", "test", "-overlay", ovf, "-vet=off", "-count=1", "-timeout", "60s", "-run", "^TestVerifReplay$", ".")
	cmd.Dir = p.pkgDir
	cmd.Env = append(os.Environ(), "GOFLAGS=-mod=mod", "GOPROXY=off", "GOSUMDB=off", "GOTOOLCHAIN=local", "PATH=/opt/veriftools/go1.26.8/bin:"+os.Getenv("PATH"))
	out, err := cmd.CombinedOutput()
	s := string(out)
	if strings.Contains(s, "VERIF-REPLAY: VIOLATED") {
		return s, true, nil
	}
	if strings.Contains(s, "VERIF-REPLAY: HELD") {
		return s, false, nil
	}
	if err != nil {
		return s, false, fmt.Errorf("go test: %v", err)
	}
	return s, false, nil
}

// planReplay builds the test for one failed obligation, or explains why it cannot.
func (e *Engine) planReplay(fr *funcResult, ob *Obligation) (*replayPlan, string) {
	fn := fr.fn
	if fn.Parent() != nil {
		return nil, "closures are not replayed"
	}
	model := parseModel(ob.Model)
	pkgDir := filepath.Dir(e.fset.Position(fn.Pos()).Filename)
	pkgName := fn.Pkg.Pkg.Name()
	// inputs
	var setup []string
	var argNames []string
	recvExpr := ""
	for i, p := range fn.Params {
		name := fmt.Sprintf("a%d", i)
		lit, ok := e.modelValue(fr.ctx, model, "in."+p.Name(), p.Type())
		if !ok {
			return nil, fmt.Sprintf("cannot build input %s of type %s from the model", p.Name(), p.Type())
		}
		setup = append(setup, fmt.Sprintf("%s := %s", name, lit))
		if i == 0 && fn.Signature.Recv() != nil {
			recvExpr = name
			continue
		}
		argNames = append(argNames, name)
	}
	callee := fn.Name()
	if recvExpr != "" {
		callee = recvExpr + "." + fn.Name()
	}
	variadic := fn.Signature.Variadic()
	callArgs := strings.Join(argNames, ", ")
	if variadic && len(argNames) > 0 {
		callArgs += "..."
	}
	nres := fn.Signature.Results().Len()
	var lhs []string
	for i := 0; i < nres; i++ {
		lhs = append(lhs, fmt.Sprintf("r%d", i))
	}
	call := fmt.Sprintf("%s(%s)", callee, callArgs)
	plan := &replayPlan{pkgDir: pkgDir, pkgName: pkgName, overlays: map[string]string{}}
	imports := map[string]bool{"testing": true, "fmt": true}
	var body strings.Builder
	for _, s := range setup {
		body.WriteString("\t" + s + "\n")
	}
	for i := range fn.Params {
		fmt.Fprintf(&body, "\t_ = a%d\n", i)
	}
	switch ob.Kind {
	case "call-assert", "requires":
		src, err := e.instrumentCallSite(fr, ob, imports)
		if err != "" {
			return nil, err
		}
		file := e.fset.Position(fn.Pos()).Filename
		plan.overlays[file] = src
		if nres > 0 {
			fmt.Fprintf(&body, "\t%s\n", strings.Repeat("_, ", nres-1)+"_ = "+call)
		} else {
			fmt.Fprintf(&body, "\t%s\n", call)
		}
		body.WriteString("\tif verifReplayViolated { fmt.Println(\"VERIF-REPLAY: VIOLATED\", verifReplayWhat); t.Fatal(\"violated\") }\n\tfmt.Println(\"VERIF-REPLAY: HELD\")\n")
	case "ensures":
		var cl *Clause
		for _, c := range fr.fs.Ensures {
			if strings.HasSuffix(ob.Name, "/ensures:"+c.Label) {
				cl = c
			}
		}
		if cl == nil {
			return nil, "ensures clause not found"
		}
		tr := &goTranslator{e: e, fn: fn, results: lhs, params: map[string]string{}}
		for i, p := range fn.Params {
			tr.params[p.Name()] = fmt.Sprintf("a%d", i)
		}
		res := fn.Signature.Results()
		for i := 0; i < res.Len(); i++ {
			if n := res.At(i).Name(); n != "" {
				tr.params[n] = lhs[i]
			}
		}
		g, ok := tr.expr(cl.E)
		if !ok {
			return nil, "clause not translatable to Go: " + tr.why
		}
		for _, o := range tr.olds {
			fmt.Fprintf(&body, "\t%s\n", o)
		}
		if nres > 0 {
			fmt.Fprintf(&body, "\t%s := %s\n", strings.Join(lhs, ", "), call)
			for _, r := range lhs {
				fmt.Fprintf(&body, "\t_ = %s\n", r)
			}
		} else {
			fmt.Fprintf(&body, "\t%s\n", call)
		}
		fmt.Fprintf(&body, "\tif !(%s) { fmt.Println(\"VERIF-REPLAY: VIOLATED\", %q); t.Fatal(\"violated\") }\n\tfmt.Println(\"VERIF-REPLAY: HELD\")\n", g, cl.Text)
		for im := range tr.imports {
			imports[im] = true
		}
	case "index", "slice", "nil-deref", "panic", "div-zero", "type-assert", "nil-map", "makeslice-len":
		body.WriteString("\tdefer func() { if r := recover(); r != nil { fmt.Println(\"VERIF-REPLAY: VIOLATED panic:\", r); t.Fatal(\"violated\") } }()\n")
		if nres > 0 {
			fmt.Fprintf(&body, "\t%s\n", strings.Repeat("_, ", nres-1)+"_ = "+call)
		} else {
			fmt.Fprintf(&body, "\t%s\n", call)
		}
		body.WriteString("\tfmt.Println(\"VERIF-REPLAY: HELD\")\n")
	default:
		return nil, "obligation kind " + ob.Kind + " has no replay harness"
	}
	var sb strings.Builder
	fmt.Fprintf(&sb, "package %s\n\nimport (\n", pkgName)
	for im := range imports {
		fmt.Fprintf(&sb, "\t%q\n", im)
	}
	sb.WriteString(")\n\nvar verifReplayViolated bool\nvar verifReplayWhat string\n\n")
	fmt.Fprintf(&sb, "// replay of obligation %s\nfunc TestVerifReplay(t *testing.T) {\n%s}\n", ob.Name, body.String())
	plan.testSrc = sb.String()
	return plan, ""
}

// modelValue renders the model's value of an input as a Go expression.
func (e *Engine) modelValue(c *vctx, model map[string]string, prefix string, t types.Type) (string, bool) {
	find := func(pfx string) (string, bool) {
		for k, v := range model {
			if strings.HasPrefix(k, sanitize(pfx)+"!") {
				return v, true
			}
		}
		return "", false
	}
	qual := func(p *types.Package) string { return "" }
	switch u := t.Underlying().(type) {
	case *types.Basic:
		info := u.Info()
		switch {
		case info&types.IsInteger != 0:
			v, ok := find(prefix)
			if !ok {
				return "0", true // not mentioned by the query: irrelevant
			}
			lit, ok := smtNum(v, false)
			if !ok {
				return "", false
			}
			return fmt.Sprintf("%s(%s)", types.TypeString(t, qual), lit), true
		case info&types.IsFloat != 0:
			v, ok := find(prefix)
			if !ok {
				return "0.0", true
			}
			lit, ok := smtNum(v, true)
			if !ok {
				return "", false
			}
			return fmt.Sprintf("%s(%s)", types.TypeString(t, qual), lit), true
		case info&types.IsBoolean != 0:
			v, ok := find(prefix)
			if !ok {
				return "false", true
			}
			return v, v == "true" || v == "false"
		case info&types.IsString != 0:
			// abstract sort: only usable when the query did not constrain it
			return `""`, true
		}
	case *types.Struct:
		var parts []string
		for i := 0; i < u.NumFields(); i++ {
			f := u.Field(i)
			fv, ok := e.modelValue(c, model, prefix+"."+f.Name(), f.Type())
			if !ok {
				return "", false
			}
			parts = append(parts, f.Name()+": "+fv)
		}
		return types.TypeString(t, qual) + "{" + strings.Join(parts, ", ") + "}", true
	}
	return "", false
}

// goTranslator renders spec expressions as Go source for run-time evaluation.
type goTranslator struct {
	e       *Engine
	fn      *ssa.Function
	params  map[string]string
	results []string
	args    []string // source text of call arguments (arg(k))
	fixed   int      // number of fixed parameters before the variadic part
	olds    []string
	imports map[string]bool
	why     string
}

func (g *goTranslator) fail(s string) (string, bool) { g.why = s; return "", false }

func (g *goTranslator) expr(x *Expr) (string, bool) {
	if g.imports == nil {
		g.imports = map[string]bool{}
	}
	switch x.Op {
	case "lit.int", "lit.float", "lit.bool":
		return x.Name, true
	case "lit.str":
		return strconv.Quote(x.Str), true
	case "nil":
		return "nil", true
	case "ident":
		if x.Name == "result" && len(g.results) == 1 {
			return g.results[0], true
		}
		if p, ok := g.params[x.Name]; ok {
			return p, true
		}
		return x.Name, true
	case "tupsel":
		if x.Args[0].Op == "ident" && x.Args[0].Name == "result" {
			k, _ := strconv.Atoi(x.Name)
			if k < len(g.results) {
				return g.results[k], true
			}
		}
		return g.fail("tuple selector")
	case "sel":
		b, ok := g.expr(x.Args[0])
		if !ok {
			return "", false
		}
		if x.Args[0].Op == "ident" {
			if _, isParam := g.params[x.Args[0].Name]; !isParam && g.e.pkgByName(x.Args[0].Name) != nil {
				g.imports[g.e.pkgByName(x.Args[0].Name).Pkg.Path()] = true
			}
		}
		return b + "." + x.Name, true
	case "index":
		b, ok := g.expr(x.Args[0])
		i, ok2 := g.expr(x.Args[1])
		if !ok || !ok2 {
			return "", false
		}
		return b + "[" + i + "]", true
	case "unop":
		v, ok := g.expr(x.Args[0])
		if !ok {
			return "", false
		}
		return "(" + x.Name + v + ")", true
	case "binop":
		l, ok := g.expr(x.Args[0])
		r, ok2 := g.expr(x.Args[1])
		if !ok || !ok2 {
			return "", false
		}
		switch x.Name {
		case "==>":
			return "(!(" + l + ") || (" + r + "))", true
		case "<==>":
			return "((" + l + ") == (" + r + "))", true
		}
		return "(" + l + " " + x.Name + " " + r + ")", true
	case "cond":
		c, ok := g.expr(x.Args[0])
		a, ok2 := g.expr(x.Args[1])
		b, ok3 := g.expr(x.Args[2])
		if !ok || !ok2 || !ok3 {
			return "", false
		}
		return fmt.Sprintf("func() float64 { if %s { return float64(%s) }; return float64(%s) }()", c, a, b), true
	case "in":
		l, ok := g.expr(x.Args[0])
		if !ok {
			return "", false
		}
		var parts []string
		for _, a := range x.Args[1:] {
			r, ok := g.expr(a)
			if !ok {
				return "", false
			}
			parts = append(parts, "("+l+" == "+r+")")
		}
		return "(" + strings.Join(parts, " || ") + ")", true
	case "old":
		v, ok := g.expr(x.Args[0])
		if !ok {
			return "", false
		}
		name := fmt.Sprintf("old%d", len(g.olds))
		g.olds = append(g.olds, fmt.Sprintf("%s := %s", name, v))
		return name, true
	case "call":
		f := x.Args[0]
		if f.Op == "ident" && f.Name == "arg" && len(x.Args) == 2 {
			k, _ := strconv.Atoi(x.Args[1].Name)
			if g.fixed+k < len(g.args) {
				return "(" + g.args[g.fixed+k] + ")", true
			}
			return g.fail("arg out of range")
		}
		if f.Op == "ident" {
			if gs, ok := goSpecFuncs[f.Name]; ok && len(x.Args) == 2 {
				v, ok := g.expr(x.Args[1])
				if !ok {
					return "", false
				}
				for _, im := range gs.imports {
					g.imports[im] = true
				}
				return fmt.Sprintf(gs.expr, v), true
			}
			if f.Name == "has" && len(x.Args) == 3 {
				m, ok1 := g.expr(x.Args[1])
				k, ok2 := g.expr(x.Args[2])
				if !ok1 || !ok2 {
					return "", false
				}
				return fmt.Sprintf("func() bool { _, ok := %s[%s]; return ok }()", m, k), true
			}
		}
		if f.Op == "ident" && (f.Name == "abs") {
			g.imports["math"] = true
			v, ok := g.expr(x.Args[1])
			return "math.Abs(float64(" + v + "))", ok
		}
		if f.Op == "ident" {
			if sf, ok := g.e.specFuncs[f.Name]; ok && sf.Body != nil {
				// macro-expand
				save := map[string]string{}
				for k, v := range g.params {
					save[k] = v
				}
				for i, p := range sf.Params {
					v, ok := g.expr(x.Args[1+i])
					if !ok {
						return "", false
					}
					g.params[p.Name] = "(" + v + ")"
				}
				r, ok := g.expr(sf.Body.E)
				g.params = save
				return r, ok
			}
		}
		fs, ok := g.expr(f)
		if !ok {
			return "", false
		}
		var as []string
		for _, a := range x.Args[1:] {
			v, ok := g.expr(a)
			if !ok {
				return "", false
			}
			as = append(as, v)
		}
		return fs + "(" + strings.Join(as, ", ") + ")", true
	}
	return g.fail("construct " + x.Op + " has no run-time translation")
}

// instrumentCallSite returns the source of the function's file with a run-time check of the failed call-site
// assertion (or callee precondition) inserted before the statement that contains the call.
func (e *Engine) instrumentCallSite(fr *funcResult, ob *Obligation, imports map[string]bool) (string, string) {
	fn := fr.fn
	// locate call instruction by obligation name "...:<callee>#<ord>:<label>"
	m := regexp.MustCompile(`/(call-assert|requires):(.+)#(\d+):(.*?)(#\d+)?$`).FindStringSubmatch(ob.Name)
	if m == nil {
		return "", "obligation name not understood"
	}
	callee, ordS, label := m[2], m[3], m[4]
	ord, _ := strconv.Atoi(ordS)
	a := fr.ctx.topAct
	var site ssa.CallInstruction
	for ci, cs := range a.sites {
		if cs.name == callee && cs.ord == ord {
			site = ci
		}
	}
	if site == nil {
		return "", "call site not found"
	}
	file := e.fset.Position(fn.Pos()).Filename
	var astFile *ast.File
	for _, p := range e.pkgs {
		for _, f := range p.Syntax {
			if e.fset.Position(f.Pos()).Filename == file {
				astFile = f
			}
		}
	}
	if astFile == nil {
		return "", "AST not found"
	}
	path, _ := astutil.PathEnclosingInterval(astFile, site.Pos(), site.Pos())
	var call *ast.CallExpr
	var stmt ast.Stmt
	for i, n := range path {
		if c, ok := n.(*ast.CallExpr); ok && call == nil && c.Lparen == site.Pos() {
			call = c
		}
		if s, ok := n.(ast.Stmt); ok && call != nil && stmt == nil {
			// statement directly inside a block / case clause
			if i+1 < len(path) {
				switch path[i+1].(type) {
				case *ast.BlockStmt, *ast.CaseClause, *ast.CommClause:
					stmt = s
				}
			}
		}
	}
	if call == nil || stmt == nil {
		return "", "call expression / enclosing statement not found"
	}
	tr := &goTranslator{e: e, fn: fn, params: map[string]string{}}
	for _, arg := range call.Args {
		tr.args = append(tr.args, e.srcText(arg.Pos(), arg.End()))
	}
	var cl *Clause
	if ob.Kind == "call-assert" {
		for _, csp := range fr.fs.Calls {
			if csp.Callee == callee && csp.Ordinal == ord {
				for _, c := range csp.Asserts {
					if c.Label == label {
						cl = c
					}
				}
			}
		}
		if sig, ok := site.Common().Value.Type().Underlying().(*types.Signature); ok && sig.Variadic() {
			tr.fixed = sig.Params().Len() - 1
		}
	} else {
		// callee precondition: parameters are the argument expressions
		var cfn *ssa.Function
		if f, ok := site.Common().Value.(*ssa.Function); ok {
			cfn = f
		}
		if cfn == nil {
			return "", "callee not static"
		}
		cfs := e.specOf(cfn)
		if cfs == nil {
			return "", "callee has no contract"
		}
		for _, c := range cfs.Requires {
			if c.Label == label {
				cl = c
			}
		}
		off := 0
		if cfn.Signature.Recv() != nil {
			// receiver expression
			if se, ok := call.Fun.(*ast.SelectorExpr); ok {
				tr.params[cfn.Signature.Recv().Name()] = "(" + e.srcText(se.X.Pos(), se.X.End()) + ")"
			}
			off = 0
		}
		for i := 0; i < cfn.Signature.Params().Len() && i+off < len(tr.args); i++ {
			tr.params[cfn.Signature.Params().At(i).Name()] = "(" + tr.args[i+off] + ")"
		}
	}
	if cl == nil {
		return "", "clause not found"
	}
	g, ok := tr.expr(cl.E)
	if !ok {
		return "", "clause not translatable to Go: " + tr.why
	}
	src := string(e.src(file))
	off := e.fset.Position(stmt.Pos()).Offset
	ins := fmt.Sprintf("if !(%s) { verifReplayViolated = true; verifReplayWhat = %q }\n", g, cl.Text)
	_ = token.NoPos
	return src[:off] + ins + src[off:], ""
}

func cmdReplay(args []string) int {
	// replay files carry the generated test; re-running the check reproduces them from the current tree
	var file string
	for i, a := range args {
		if a == "-file" && i+1 < len(args) {
			file = args[i+1]
		}
	}
	data, err := os.ReadFile(file)
	if err != nil {
		fmt.Fprintln(os.Stderr, err)
		return 2
	}
	var v violation
	if err := json.Unmarshal(data, &v); err != nil {
		fmt.Fprintln(os.Stderr, err)
		return 2
	}
	fmt.Printf("obligation: %s\nreason: %s\nreplay: %s\n", v.Obligation, v.Reason, v.Replay)
	if v.Reproduced {
		fmt.Printf("VIOLATION property=%s replay=%s\n", v.Property, file)
		return 1
	}
	return 0
}

func selftestMain(args []string) int { return runSelftest(args) }
