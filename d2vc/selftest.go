package main

// Must-fail / must-pass corpus: deliberate edits of /repo sources applied through go/packages overlays (nothing
// is written to /repo). A must-fail edit has to make at least one of its named claimed obligations fail; a
// must-pass edit (harmless refactoring) has to leave every claimed obligation discharged.

import (
	"encoding/json"
	"flag"
	"fmt"
	"os"
	"path/filepath"
	"sort"
	"strings"
	"sync"
)

type mutation struct {
	Name       string   `json:"name"`
	Property   string   `json:"property"`
	File       string   `json:"file"` // relative to the repository
	Old        string   `json:"old"`
	New        string   `json:"new"`
	Occurrence int      `json:"occurrence,omitempty"` // 1-based; 0 = must be unique
	ExpectFail []string `json:"expect_fail"`          // obligation names (prefix match); empty = must pass
	Edits      []struct {
		File       string `json:"file"`
		Old        string `json:"old"`
		New        string `json:"new"`
		Occurrence int    `json:"occurrence,omitempty"`
	} `json:"edits,omitempty"`
}

func applyEdit(src, old, new string, occ int) (string, error) {
	n := strings.Count(src, old)
	if n == 0 {
		return "", fmt.Errorf("text %q not found", trunc(old, 50))
	}
	if occ == 0 {
		if n != 1 {
			return "", fmt.Errorf("text %q occurs %d times; give occurrence", trunc(old, 50), n)
		}
		return strings.Replace(src, old, new, 1), nil
	}
	idx := -1
	pos := 0
	for k := 0; k < occ; k++ {
		j := strings.Index(src[pos:], old)
		if j < 0 {
			return "", fmt.Errorf("occurrence %d of %q not found", occ, trunc(old, 50))
		}
		idx = pos + j
		pos = idx + len(old)
	}
	return src[:idx] + new + src[idx+len(old):], nil
}

func runSelftest(args []string) int {
	fs := flag.NewFlagSet("selftest", flag.ExitOnError)
	prop := fs.String("prop", "", "only this property")
	repo := fs.String("repo", "/repo", "repository")
	verif := fs.String("verif", "/verif", "verif dir")
	only := fs.String("only", "", "only mutations whose name contains this")
	par := fs.Int("j", 3, "parallel runs")
	full := fs.Bool("full", false, "check the whole property for must-fail mutations too (default: only the units of the expected obligations)")
	fs.Parse(args)
	files, _ := filepath.Glob(filepath.Join(*verif, "selftest", "*", "*.json"))
	sort.Strings(files)
	var muts []mutation
	for _, f := range files {
		data, err := os.ReadFile(f)
		if err != nil {
			continue
		}
		var ms []mutation
		if err := json.Unmarshal(data, &ms); err != nil {
			var m mutation
			if err2 := json.Unmarshal(data, &m); err2 != nil {
				fmt.Printf("selftest: %s: %v\n", f, err)
				return 2
			}
			ms = []mutation{m}
		}
		for _, m := range ms {
			if m.Property == "" {
				m.Property = filepath.Base(filepath.Dir(f))
			}
			if *prop != "" && m.Property != *prop {
				continue
			}
			if *only != "" && !strings.Contains(m.Name, *only) {
				continue
			}
			muts = append(muts, m)
		}
	}
	if len(muts) == 0 {
		fmt.Println("selftest: no mutations selected")
		return 0
	}
	activeFindings = loadFindings(*verif)
	ledger := loadLedger(*verif)
	type res struct {
		m      mutation
		ok     bool
		detail string
	}
	out := make([]res, len(muts))
	var wg sync.WaitGroup
	sem := make(chan struct{}, *par)
	for i, m := range muts {
		wg.Add(1)
		sem <- struct{}{}
		go func(i int, m mutation) {
			defer wg.Done()
			defer func() { <-sem }()
			out[i] = res{m: m}
			overlay := map[string][]byte{}
			edits := m.Edits
			if m.File != "" {
				edits = append(edits, struct {
					File       string `json:"file"`
					Old        string `json:"old"`
					New        string `json:"new"`
					Occurrence int    `json:"occurrence,omitempty"`
				}{m.File, m.Old, m.New, m.Occurrence})
			}
			for _, ed := range edits {
				path := filepath.Join(*repo, ed.File)
				src, ok := overlay[path]
				if !ok {
					b, err := os.ReadFile(path)
					if err != nil {
						out[i].detail = err.Error()
						return
					}
					src = b
				}
				ns, err := applyEdit(string(src), ed.Old, ed.New, ed.Occurrence)
				if err != nil {
					out[i].detail = "edit does not apply: " + err.Error()
					return
				}
				overlay[path] = []byte(ns)
			}
			o := checkOpts{repo: *repo, verif: *verif, prop: m.Property, tier: "quick", timeoutS: 10, overlay: overlay, quiet: true, skipUnclaimed: true,
				workDir: filepath.Join(*verif, "work", "selftest", sanitize(m.Property+"_"+m.Name))}
			// a must-fail mutation is decided by the units of the obligations it names: only those are generated and
			// discharged (the whole property per mutation costs minutes for the package sweeps); -full turns this off
			focus := ""
			// the retry passes (longer limits for undecided obligations) only matter for must-pass mutations; for a
			// must-fail one they would re-run every failing obligation with 3x and 6x the limit
			o.noRetry = len(m.ExpectFail) > 0
			if !*full && len(m.ExpectFail) > 0 {
				var units []string
				for _, want := range m.ExpectFail {
					if j := strings.Index(want, "/"); j > 0 {
						units = append(units, want[:j])
					}
				}
				if len(units) == len(m.ExpectFail) {
					focus = strings.Join(units, "|")
					o.only = focus
				}
			}
			results, _, problems, err := runProperty(o)
			// the query files of a mutation run are of no further use (a corpus run left 18 GB of them)
			if os.Getenv("D2VC_KEEP_QUERIES") == "" {
				_ = os.RemoveAll(o.workDir)
			}
			if err != nil {
				out[i].detail = "run failed: " + err.Error()
				return
			}
			ent := ledger[m.Property]
			claimed := map[string]bool{}
			if ent != nil {
				for _, n := range ent.Claimed {
					claimed[n] = true
				}
			}
			generated := map[string]bool{}
			var failed []string
			for _, r := range results {
				for _, ob := range r.ctx.obligations {
					generated[ob.Name] = true
					generated[ob.group()] = true
					if (claimed[ob.group()] || ob.Auto) && !obOK(ob) {
						failed = append(failed, ob.Name)
					}
				}
				for _, s := range r.ctx.anchorErrs {
					failed = append(failed, "spec:"+s)
				}
			}
			if ent != nil {
				var allObs []*Obligation
				for _, r := range results {
					allObs = append(allObs, r.ctx.obligations...)
				}
				for _, ob := range sweepRenameFailures(ent, func(n string) bool { return generated[n] }, allObs) {
					failed = append(failed, ob.Name)
				}
				for _, n := range ent.Sweep {
					if !generated[n] {
						delete(claimed, n) // vanished package-sweep names are not violations (see ledgerEntry.Sweep)
					}
				}
			}
			for n := range claimed {
				if focus != "" {
					if j := strings.Index(n, "/"); j < 0 || !matchOnly(n[:j], focus) {
						continue // unit outside the focus: not generated on purpose
					}
				}
				if !generated[n] {
					failed = append(failed, n+" (not generated)")
				}
			}
			for _, p := range problems {
				failed = append(failed, "problem:"+p)
			}
			sort.Strings(failed)
			if len(m.ExpectFail) == 0 {
				out[i].ok = len(failed) == 0
				out[i].detail = fmt.Sprintf("must-pass: %d failed %v", len(failed), failed)
				return
			}
			hit := false
			for _, f := range failed {
				for _, want := range m.ExpectFail {
					if strings.HasPrefix(f, want) {
						hit = true
					}
				}
			}
			out[i].ok = hit
			out[i].detail = fmt.Sprintf("must-fail: failed=%v", failed)
		}(i, m)
	}
	wg.Wait()
	bad := 0
	for _, r := range out {
		mark := "ok  "
		if !r.ok {
			mark = "FAIL"
			bad++
		}
		fmt.Printf("%s %s/%s  %s\n", mark, r.m.Property, r.m.Name, trunc(r.detail, 600))
	}
	fmt.Printf("selftest: %d mutations, %d not as expected\n", len(out), bad)
	if bad > 0 {
		return 1
	}
	return 0
}
