package main

import (
	"go/types"
	"sort"
	"strings"

	"golang.org/x/tools/go/ssa"
)

// Private allocations.
//
// An opaque call (a callee without contract that cannot be inlined, or `modifies anything`) havocs the whole heap. That
// is needlessly weak for objects the callee cannot possibly reach: the cells of escaped locals (variables captured by a
// deferred closure, named results, `var sb strings.Builder` whose address is taken) and objects built with &T{...}
// that the function has not yet handed to anybody. privateAllocs computes, for a function together with its closures,
// the heap Allocs whose address never leaves the function family:
//
//	field- and flow-insensitive points-to over the family's SSA; an Alloc is LEAKED when a value that may point to it
//	is stored somewhere that is not itself a private Alloc, passed to a call that is not (a) a closure of the family
//	called directly, (b) a builtin, (c) a pure function, or (d) a library (non-module) function with an extern contract,
//	converted to an interface, sent, used as a map key/value, returned from a closure, bound into a closure that
//	escapes, or used by any instruction the analysis does not know. Everything stored in a leaked Alloc is leaked too.
//
// havocAll keeps the content of the private Allocs of the activations on the current call chain.
type privInfo struct {
	private map[*ssa.Alloc]bool
}

func familyRoot(fn *ssa.Function) *ssa.Function {
	for fn.Parent() != nil {
		fn = fn.Parent()
	}
	return fn
}

func familyFuncs(root *ssa.Function) []*ssa.Function {
	var out []*ssa.Function
	var walk func(f *ssa.Function)
	walk = func(f *ssa.Function) {
		out = append(out, f)
		for _, af := range f.AnonFuncs {
			walk(af)
		}
	}
	walk(root)
	return out
}

func (e *Engine) privateAllocs(fn *ssa.Function) map[*ssa.Alloc]bool {
	root := familyRoot(fn)
	if e.privCache == nil {
		e.privCache = map[*ssa.Function]*privInfo{}
	}
	if pi, ok := e.privCache[root]; ok {
		return pi.private
	}
	pi := &privInfo{private: e.computePrivate(root)}
	e.privCache[root] = pi
	return pi.private
}

type allocSet map[*ssa.Alloc]bool

func (e *Engine) computePrivate(root *ssa.Function) map[*ssa.Alloc]bool {
	fns := familyFuncs(root)
	inFamily := map[*ssa.Function]bool{}
	for _, f := range fns {
		e.ensureBuilt(f)
		inFamily[f] = true
	}
	cand := allocSet{}
	for _, f := range fns {
		for _, b := range f.Blocks {
			for _, in := range b.Instrs {
				if al, ok := in.(*ssa.Alloc); ok && al.Heap {
					cand[al] = true
				}
			}
		}
	}
	if len(cand) == 0 {
		return cand
	}
	// points-to sets of SSA values (only candidates are tracked) and contents of candidates
	pts := map[ssa.Value]allocSet{}
	contents := map[*ssa.Alloc]allocSet{}
	addAll := func(dst allocSet, src allocSet) bool {
		ch := false
		for a := range src {
			if !dst[a] {
				dst[a] = true
				ch = true
			}
		}
		return ch
	}
	get := func(v ssa.Value) allocSet {
		if v == nil {
			return nil
		}
		if al, ok := v.(*ssa.Alloc); ok && cand[al] {
			return allocSet{al: true}
		}
		return pts[v]
	}
	flow := func(dst ssa.Value, src allocSet) bool {
		if len(src) == 0 {
			return false
		}
		s := pts[dst]
		if s == nil {
			s = allocSet{}
			pts[dst] = s
		}
		return addAll(s, src)
	}
	// closure creation sites: FreeVars <- Bindings; direct calls of closures: Params <- Args
	for changed := true; changed; {
		changed = false
		for _, f := range fns {
			for _, b := range f.Blocks {
				for _, in := range b.Instrs {
					switch x := in.(type) {
					case *ssa.MakeClosure:
						if cf, ok := x.Fn.(*ssa.Function); ok && inFamily[cf] {
							for i, bv := range x.Bindings {
								if i < len(cf.FreeVars) && flow(cf.FreeVars[i], get(bv)) {
									changed = true
								}
							}
						}
					case *ssa.Store:
						vs := get(x.Val)
						if len(vs) == 0 {
							break
						}
						for a := range get(x.Addr) {
							c := contents[a]
							if c == nil {
								c = allocSet{}
								contents[a] = c
							}
							if addAll(c, vs) {
								changed = true
							}
						}
					case *ssa.UnOp:
						if x.Op.String() == "*" {
							for a := range get(x.X) {
								if flow(x, contents[a]) {
									changed = true
								}
							}
						}
					case *ssa.FieldAddr:
						if flow(x, get(x.X)) {
							changed = true
						}
					case *ssa.IndexAddr:
						if flow(x, get(x.X)) {
							changed = true
						}
					case *ssa.Field:
						if flow(x, get(x.X)) {
							changed = true
						}
					case *ssa.Index:
						if flow(x, get(x.X)) {
							changed = true
						}
					case *ssa.Slice:
						if flow(x, get(x.X)) {
							changed = true
						}
					case *ssa.Phi:
						for _, ed := range x.Edges {
							if flow(x, get(ed)) {
								changed = true
							}
						}
					case *ssa.ChangeType:
						if flow(x, get(x.X)) {
							changed = true
						}
					case *ssa.Convert:
						if flow(x, get(x.X)) {
							changed = true
						}
					case *ssa.Extract:
						if flow(x, get(x.Tuple)) {
							changed = true
						}
					case ssa.CallInstruction:
						cc := x.Common()
						if cc.IsInvoke() {
							break
						}
						if bi, ok := cc.Value.(*ssa.Builtin); ok {
							if bi.Name() == "append" {
								if v, ok := in.(ssa.Value); ok {
									for _, a := range cc.Args {
										if flow(v, get(a)) {
											changed = true
										}
									}
								}
							}
							break
						}
						// direct call of a family closure (a MakeClosure value or the function itself)
						var cf *ssa.Function
						switch cv := cc.Value.(type) {
						case *ssa.MakeClosure:
							cf, _ = cv.Fn.(*ssa.Function)
						case *ssa.Function:
							cf = cv
						}
						if cf != nil && inFamily[cf] && cf != root {
							for i, a := range cc.Args {
								if i < len(cf.Params) && flow(cf.Params[i], get(a)) {
									changed = true
								}
							}
						}
					}
				}
			}
		}
	}
	// definite(v): v certainly holds nil or (an address inside) a candidate, never a pointer the analysis does not
	// track. A store of a tracked pointer through an address that is not definite may land anywhere: leak.
	storesInto := map[*ssa.Alloc][]*ssa.Store{}
	closureSites := map[*ssa.Function][]*ssa.MakeClosure{}
	for _, f := range fns {
		for _, b := range f.Blocks {
			for _, in := range b.Instrs {
				switch x := in.(type) {
				case *ssa.Store:
					for a := range get(x.Addr) {
						storesInto[a] = append(storesInto[a], x)
					}
				case *ssa.MakeClosure:
					if cf, ok := x.Fn.(*ssa.Function); ok {
						closureSites[cf] = append(closureSites[cf], x)
					}
				}
			}
		}
	}
	defMemo := map[ssa.Value]int{} // 1 in progress / true, 2 false
	var definite func(v ssa.Value) bool
	cellDefinite := func(a *ssa.Alloc) bool {
		for _, s := range storesInto[a] {
			if pointerLike(s.Val.Type()) && !definite(s.Val) {
				return false
			}
		}
		return true
	}
	definite = func(v ssa.Value) bool {
		if m, ok := defMemo[v]; ok {
			return m == 1
		}
		defMemo[v] = 1
		r := false
		switch x := v.(type) {
		case *ssa.Alloc:
			r = cand[x]
		case *ssa.Const:
			r = true
		case *ssa.FieldAddr:
			r = definite(x.X)
		case *ssa.IndexAddr:
			r = definite(x.X)
		case *ssa.ChangeType:
			r = definite(x.X)
		case *ssa.Phi:
			r = true
			for _, ed := range x.Edges {
				if !definite(ed) {
					r = false
				}
			}
		case *ssa.UnOp:
			if x.Op.String() == "*" && definite(x.X) {
				r = true
				for a := range get(x.X) {
					if !cellDefinite(a) {
						r = false
					}
				}
			}
		case *ssa.FreeVar:
			cf := x.Parent()
			idx := -1
			for i, fv := range cf.FreeVars {
				if fv == x {
					idx = i
				}
			}
			sites := closureSites[cf]
			r = idx >= 0 && len(sites) > 0
			for _, mc := range sites {
				if idx < 0 || idx >= len(mc.Bindings) || !definite(mc.Bindings[idx]) {
					r = false
				}
			}
		}
		if r {
			defMemo[v] = 1
		} else {
			defMemo[v] = 2
		}
		return r
	}
	leaked := allocSet{}
	leak := func(s allocSet) {
		for a := range s {
			leaked[a] = true
		}
	}
	closureEscapes := func(mc *ssa.MakeClosure) bool {
		refs := mc.Referrers()
		if refs == nil {
			return true
		}
		for _, r := range *refs {
			switch u := r.(type) {
			case ssa.CallInstruction:
				if u.Common().Value != mc {
					return true // passed as an argument
				}
				for _, a := range u.Common().Args {
					if a == mc {
						return true
					}
				}
			case *ssa.DebugRef:
			case *ssa.Store:
				// `f := func(...) {...}`: the closure is kept in a local variable; fine when that variable is only ever
				// loaded to be called
				al, ok := u.Addr.(*ssa.Alloc)
				if !ok || u.Val != mc || !localOnlyCalled(al) {
					return true
				}
			default:
				return true
			}
		}
		return false
	}
	for _, f := range fns {
		for _, b := range f.Blocks {
			for _, in := range b.Instrs {
				switch x := in.(type) {
				case *ssa.Alloc, *ssa.FieldAddr, *ssa.IndexAddr, *ssa.Field, *ssa.Index, *ssa.Slice, *ssa.Phi, *ssa.ChangeType,
					*ssa.Convert, *ssa.Extract, *ssa.DebugRef, *ssa.If, *ssa.Jump, *ssa.RunDefers, *ssa.BinOp, *ssa.Range, *ssa.Next,
					*ssa.MakeSlice, *ssa.MakeMap, *ssa.Lookup, *ssa.Panic:
					// address arithmetic, comparisons, control flow: no leak by themselves (Lookup/Next results are untracked)
					if lk, ok := in.(*ssa.Lookup); ok {
						leak(get(lk.Index))
					}
				case *ssa.UnOp:
				case *ssa.Store:
					vs := get(x.Val)
					if len(vs) == 0 {
						break
					}
					if !definite(x.Addr) {
						leak(vs) // stored through a pointer that may lead anywhere
					}
				case *ssa.MakeClosure:
					cf, ok := x.Fn.(*ssa.Function)
					if !ok || !inFamily[cf] || closureEscapes(x) {
						for _, bv := range x.Bindings {
							leak(get(bv))
						}
					}
				case *ssa.Return:
					if f != root {
						for _, r := range x.Results {
							leak(get(r))
						}
					}
				case *ssa.Go:
					leak(get(x.Call.Value))
					for _, a := range x.Call.Args {
						leak(get(a))
					}
					if mc, ok := x.Call.Value.(*ssa.MakeClosure); ok {
						for _, bv := range mc.Bindings {
							leak(get(bv))
						}
					}
				case ssa.CallInstruction:
					cc := x.Common()
					if cc.IsInvoke() {
						safe := false
						if cc.Method != nil {
							if xs := e.externs[invokeName(cc)]; xs != nil && xs.Pure {
								safe = true
							}
						}
						if !safe {
							leak(get(cc.Value))
							for _, a := range cc.Args {
								leak(get(a))
							}
						}
						break
					}
					if _, ok := cc.Value.(*ssa.Builtin); ok {
						break
					}
					var cf *ssa.Function
					switch cv := cc.Value.(type) {
					case *ssa.MakeClosure:
						cf, _ = cv.Fn.(*ssa.Function)
					case *ssa.Function:
						cf = cv
					}
					if cf != nil && inFamily[cf] && cf != root {
						break // arguments flow into the closure's parameters (handled above)
					}
					if cf != nil && e.calleeKeepsNothing(cf) {
						break
					}
					leak(get(cc.Value))
					for _, a := range cc.Args {
						leak(get(a))
					}
				default:
					// MakeInterface, MapUpdate, Send, TypeAssert, ChangeInterface, Select, Go, ...: every operand leaks
					for _, op := range in.Operands(nil) {
						if op != nil && *op != nil {
							leak(get(*op))
						}
					}
				}
			}
		}
	}
	// stores into leaked objects leak the stored values; contents of leaked objects are leaked
	for changed := true; changed; {
		changed = false
		for a := range leaked {
			for c := range contents[a] {
				if !leaked[c] {
					leaked[c] = true
					changed = true
				}
			}
		}
	}
	priv := allocSet{}
	for a := range cand {
		if !leaked[a] {
			priv[a] = true
		}
	}
	return priv
}

// localOnlyCalled: every use of the local variable al is a store into it, or a load whose value is only used as the
// callee of a call/defer (never passed on, stored elsewhere or returned).
func localOnlyCalled(al *ssa.Alloc) bool {
	refs := al.Referrers()
	if refs == nil {
		return false
	}
	for _, r := range *refs {
		switch u := r.(type) {
		case *ssa.Store:
			if u.Addr != al {
				return false
			}
		case *ssa.DebugRef:
		case *ssa.UnOp:
			lrefs := u.Referrers()
			if lrefs == nil {
				return false
			}
			for _, lr := range *lrefs {
				switch c := lr.(type) {
				case *ssa.DebugRef:
				case ssa.CallInstruction:
					if _, isGo := c.(*ssa.Go); isGo || c.Common().Value != u {
						return false
					}
					for _, a := range c.Common().Args {
						if a == u {
							return false
						}
					}
				default:
					return false
				}
			}
		default:
			return false
		}
	}
	return true
}

// pointerLike: values of this type can carry a pointer.
func pointerLike(t types.Type) bool {
	switch u := t.Underlying().(type) {
	case *types.Basic:
		return u.Kind() == types.UnsafePointer
	case *types.Struct:
		for i := 0; i < u.NumFields(); i++ {
			if pointerLike(u.Field(i).Type()) {
				return true
			}
		}
		return false
	case *types.Array:
		return pointerLike(u.Elem())
	case *types.Tuple:
		for i := 0; i < u.Len(); i++ {
			if pointerLike(u.At(i).Type()) {
				return true
			}
		}
		return false
	}
	return true
}

func invokeName(cc *ssa.CallCommon) string {
	recv := cc.Value.Type()
	if n, ok := recv.(*types.Named); ok {
		pkg := ""
		if n.Obj().Pkg() != nil {
			pkg = n.Obj().Pkg().Name()
		}
		if pkg == "" {
			return n.Obj().Name() + "." + cc.Method.Name()
		}
		return pkg + "." + n.Obj().Name() + "." + cc.Method.Name()
	}
	return cc.Method.Name()
}

// calleeKeepsNothing: a static callee that cannot store its pointer arguments anywhere a later call could find them:
// pure functions (declared or library) and library functions with an extern contract (their effects are confined to
// the abstract state of the library object they are called on).
func (e *Engine) calleeKeepsNothing(fn *ssa.Function) bool {
	name := calleeName(fn)
	if fs := e.specOf(fn); fs != nil {
		return fs.Pure
	}
	pkgPath := ""
	if fn.Pkg != nil {
		pkgPath = fn.Pkg.Pkg.Path()
	} else if o := fn.Object(); o != nil && o.Pkg() != nil {
		pkgPath = o.Pkg().Path()
	}
	module := strings.HasPrefix(pkgPath, "oss.terrastruct.com/")
	if xs := e.externs[name]; xs != nil {
		return xs.Pure || !module
	}
	if !module && (pureLibPkgs[pkgPath] || pureLibFuncs[name]) {
		return true
	}
	return false
}

// keepPrivate is called by havocAll with the heap as it was before the havoc: the content of every private Alloc of
// an activation on the call chain is the same afterwards.
func (a *act) keepPrivate(st *State, oldHeap map[string]Term, oldEpoch string) {
	e := a.e
	log := e.cur.log
	seen := map[*ssa.Alloc]bool{}
	for p := a; p != nil; p = p.caller {
		if p.fn == nil {
			continue
		}
		priv := e.privateAllocs(p.fn)
		if len(priv) == 0 {
			continue
		}
		var als []*ssa.Alloc
		for v := range p.vals {
			if al, ok := v.(*ssa.Alloc); ok && priv[al] && !seen[al] {
				als = append(als, al)
			}
		}
		sort.Slice(als, func(i, j int) bool { return als[i].Pos() < als[j].Pos() || (als[i].Pos() == als[j].Pos() && als[i].Name() < als[j].Name()) })
		for _, al := range als {
			seen[al] = true
			pv := p.vals[al]
			if len(pv.T) != 1 {
				continue
			}
			r := pv.T[0]
			et := al.Type().(*types.Pointer).Elem()
			old := func(name string, srt Sort) Term {
				if t, ok := oldHeap[name]; ok {
					return t
				}
				return log.declConst(name+"@"+oldEpoch, srt)
			}
			if at, ok := et.Underlying().(*types.Array); ok {
				for _, l := range e.layout(at.Elem()) {
					name := elemHeapName(at.Elem(), l.Path)
					srt := arrSort(SInt, arrSort(SInt, l.Sort))
					log.assert(eq(sel(e.heapGet(st, name, srt), r), sel(old(name, srt), r)))
				}
				continue
			}
			for _, l := range e.layout(et) {
				name := objHeapName(et, l.Path)
				srt := arrSort(SInt, l.Sort)
				log.assert(eq(sel(e.heapGet(st, name, srt), r), sel(old(name, srt), r)))
			}
			for _, sfName := range sortedKeys(e.specFuncs) {
				sf := e.specFuncs[sfName]
				if !sf.Ghost || len(sf.Params) != 1 {
					continue
				}
				srt, ok := e.cur.heapSorts["G_"+sf.Name]
				if !ok {
					continue
				}
				env := e.newEnv(a, st)
				pt, err := env.parseType(sf.Params[0].Type)
				if err != nil {
					continue
				}
				pp, ok := pt.Underlying().(*types.Pointer)
				if !ok || typeKey(pp.Elem()) != typeKey(et) {
					continue
				}
				log.assert(eq(sel(e.heapGet(st, "G_"+sf.Name, srt), r), sel(old("G_"+sf.Name, srt), r)))
			}
		}
	}
}

// moduleGhost: the ghost family belongs to a ghost declared in a contract file of a module package (ghost state of
// the program's own objects, changed only by `ghostset` clauses): its frame is checked like that of real memory.
func (e *Engine) moduleGhost(name string) bool {
	sf, ok := e.specFuncs[name]
	return ok && sf.Ghost && sf.Pkg != ""
}
