package main

import (
	"fmt"
	"go/types"
	"os"
	"sort"
	"strings"

	"golang.org/x/tools/go/ssa"
)

// Private allocations.
//
// An opaque call (a callee without contract that cannot be inlined, or `modifies anything`) havocs the whole heap. That
// is needlessly weak for memory the callee cannot possibly reach: the cells of escaped locals (variables captured by a
// deferred closure, named results, `var sb strings.Builder` whose address is taken), objects built with &T{...} or by
// a small constructor (geo.NewPoint), local slices (make / append) and local maps that the function has not yet handed
// to anybody. computePrivate determines, for a function together with its closures, the ALLOCATION SITES whose
// memory never leaves the function family:
//
//	sites: heap Allocs, MakeSlice, MakeMap, append (may allocate a new array), calls of module constructors that
//	return a private Alloc of their own. A field- and flow-insensitive points-to analysis over the family's SSA tracks
//	which values may point into which sites and what is stored in them. A site is LEAKED when a value that may point
//	to it is stored through an address that is not definitely private, passed to a call that is not (a) a closure of
//	the family called directly, (b) a builtin, (c) a pure function, or (d) a library (non-module) function with an
//	extern contract; converted to an interface, sent, returned from a closure, bound into a closure that escapes, or
//	used by any instruction the analysis does not know. Everything stored in a leaked site is leaked too.
//
// havocAll keeps the memory behind every SSA value of the activations on the current call chain that definitely points
// only into private sites.
type privInfo struct {
	vals map[ssa.Value]bool // values that definitely point only into private sites
}

func familyRoot(fn *ssa.Function) *ssa.Function {
	for fn.Parent() != nil {
		fn = fn.Parent()
	}
	return fn
}

func familyFuncs(root *ssa.Function) []*ssa.Function {
	var out []*ssa.Function
	var walk func(f *ssa.Function)
	walk = func(f *ssa.Function) {
		out = append(out, f)
		for _, af := range f.AnonFuncs {
			walk(af)
		}
	}
	walk(root)
	return out
}

func (e *Engine) privateVals(fn *ssa.Function) map[ssa.Value]bool {
	root := familyRoot(fn)
	if e.privCache == nil {
		e.privCache = map[*ssa.Function]*privInfo{}
	}
	if pi, ok := e.privCache[root]; ok {
		if pi == nil {
			return nil // in progress (recursive constructor summary)
		}
		return pi.vals
	}
	e.privCache[root] = nil
	pi := &privInfo{vals: e.computePrivate(root)}
	e.privCache[root] = pi
	if os.Getenv("D2VC_DEBUG_PRIV") != "" {
		var names []string
		for v := range pi.vals {
			names = append(names, v.Name()+":"+v.String())
		}
		sort.Strings(names)
		fmt.Fprintf(os.Stderr, "private values of %s: %s\n", calleeName(root), strings.Join(names, "; "))
	}
	return pi.vals
}

type siteSet map[ssa.Value]bool

// isConstructor: fn is a small loop-free module function every result of which is a private heap Alloc of its own
// (geo.NewPoint, geo.NewBox ...): a call of it is an allocation site of the caller.
func (e *Engine) isConstructor(fn *ssa.Function) bool {
	if fn == nil || fn.Parent() != nil || fn.Signature.Results().Len() != 1 {
		return false
	}
	if v, ok := e.ctorCache[fn]; ok {
		return v
	}
	if e.ctorCache == nil {
		e.ctorCache = map[*ssa.Function]bool{}
	}
	e.ctorCache[fn] = false
	pkgPath := ""
	if fn.Pkg != nil {
		pkgPath = fn.Pkg.Pkg.Path()
	}
	if !strings.HasPrefix(pkgPath, "oss.terrastruct.com/") || e.specOf(fn) != nil {
		return false
	}
	if _, ok := fn.Signature.Results().At(0).Type().Underlying().(*types.Pointer); !ok {
		return false
	}
	e.ensureBuilt(fn)
	if len(fn.Blocks) == 0 {
		return false
	}
	n := 0
	for _, b := range fn.Blocks {
		n += len(b.Instrs)
		for _, s := range b.Succs {
			if s.Dominates(b) {
				return false
			}
		}
	}
	if n > 120 {
		return false
	}
	pv := e.privateVals(fn)
	ok := false
	for _, b := range fn.Blocks {
		for _, in := range b.Instrs {
			if r, isRet := in.(*ssa.Return); isRet {
				if len(r.Results) != 1 {
					return false
				}
				// (NaiveForm returns a load of the result variable, not the Alloc itself) the returned pointer definitely
				// points into memory allocated by this call that nothing else can reach
				if !pv[r.Results[0]] {
					return false
				}
				ok = true
			}
		}
	}
	e.ctorCache[fn] = ok
	return ok
}

func staticCallee(cc *ssa.CallCommon) *ssa.Function {
	switch cv := cc.Value.(type) {
	case *ssa.MakeClosure:
		f, _ := cv.Fn.(*ssa.Function)
		return f
	case *ssa.Function:
		return cv
	}
	return nil
}

func (e *Engine) computePrivate(root *ssa.Function) map[ssa.Value]bool {
	fns := familyFuncs(root)
	inFamily := map[*ssa.Function]bool{}
	for _, f := range fns {
		e.ensureBuilt(f)
		inFamily[f] = true
	}
	isAppend := func(in ssa.Instruction) (*ssa.Call, bool) {
		c, ok := in.(*ssa.Call)
		if !ok {
			return nil, false
		}
		b, ok := c.Call.Value.(*ssa.Builtin)
		return c, ok && b.Name() == "append"
	}
	sites := siteSet{}
	for _, f := range fns {
		for _, b := range f.Blocks {
			for _, in := range b.Instrs {
				switch x := in.(type) {
				case *ssa.Alloc:
					// stack-allocated locals are cells too (what is stored in them flows to their loads); their own
					// memory is not in the heap model, so only the heap ones matter to keepPrivate
					sites[x] = true
				case *ssa.MakeSlice:
					sites[x] = true
				case *ssa.MakeMap:
					sites[x] = true
				case *ssa.Call:
					if _, ok := isAppend(in); ok {
						sites[x] = true
					} else if cf := staticCallee(&x.Call); cf != nil && !inFamily[cf] && e.isConstructor(cf) {
						sites[x] = true
					}
				}
			}
		}
	}
	if len(sites) == 0 {
		return nil
	}
	pts := map[ssa.Value]siteSet{}
	contents := map[ssa.Value]siteSet{}
	addAll := func(dst siteSet, src siteSet) bool {
		ch := false
		for a := range src {
			if !dst[a] {
				dst[a] = true
				ch = true
			}
		}
		return ch
	}
	get := func(v ssa.Value) siteSet {
		if v == nil {
			return nil
		}
		if sites[v] {
			if s := pts[v]; s != nil {
				return s
			}
			s := siteSet{v: true}
			pts[v] = s
			return s
		}
		return pts[v]
	}
	flow := func(dst ssa.Value, src siteSet) bool {
		if len(src) == 0 {
			return false
		}
		s := pts[dst]
		if s == nil {
			s = siteSet{}
			if sites[dst] {
				s[dst] = true
			}
			pts[dst] = s
		}
		return addAll(s, src)
	}
	store := func(addrSites siteSet, vs siteSet) bool {
		ch := false
		if len(vs) == 0 {
			return false
		}
		for a := range addrSites {
			c := contents[a]
			if c == nil {
				c = siteSet{}
				contents[a] = c
			}
			if addAll(c, vs) {
				ch = true
			}
		}
		return ch
	}
	for changed := true; changed; {
		changed = false
		for _, f := range fns {
			for _, b := range f.Blocks {
				for _, in := range b.Instrs {
					switch x := in.(type) {
					case *ssa.MakeClosure:
						if cf, ok := x.Fn.(*ssa.Function); ok && inFamily[cf] {
							for i, bv := range x.Bindings {
								if i < len(cf.FreeVars) && flow(cf.FreeVars[i], get(bv)) {
									changed = true
								}
							}
						}
					case *ssa.Store:
						if store(get(x.Addr), get(x.Val)) {
							changed = true
						}
					case *ssa.MapUpdate:
						if store(get(x.Map), get(x.Value)) {
							changed = true
						}
						if store(get(x.Map), get(x.Key)) {
							changed = true
						}
					case *ssa.UnOp:
						if x.Op.String() == "*" {
							for a := range get(x.X) {
								if flow(x, contents[a]) {
									changed = true
								}
							}
						}
					case *ssa.Lookup:
						for a := range get(x.X) {
							if flow(x, contents[a]) {
								changed = true
							}
						}
					case *ssa.Range:
						if flow(x, get(x.X)) {
							changed = true
						}
					case *ssa.Next:
						for a := range get(x.Iter) {
							if flow(x, contents[a]) {
								changed = true
							}
						}
					case *ssa.FieldAddr:
						if flow(x, get(x.X)) {
							changed = true
						}
					case *ssa.IndexAddr:
						if flow(x, get(x.X)) {
							changed = true
						}
					case *ssa.Field:
						if flow(x, get(x.X)) {
							changed = true
						}
					case *ssa.Index:
						if flow(x, get(x.X)) {
							changed = true
						}
					case *ssa.Slice:
						if flow(x, get(x.X)) {
							changed = true
						}
					case *ssa.Phi:
						for _, ed := range x.Edges {
							if flow(x, get(ed)) {
								changed = true
							}
						}
					case *ssa.ChangeType:
						if flow(x, get(x.X)) {
							changed = true
						}
					case *ssa.Convert:
						if flow(x, get(x.X)) {
							changed = true
						}
					case *ssa.Extract:
						if flow(x, get(x.Tuple)) {
							changed = true
						}
					case ssa.CallInstruction:
						cc := x.Common()
						if cc.IsInvoke() {
							break
						}
						if bi, ok := cc.Value.(*ssa.Builtin); ok {
							if bi.Name() == "append" {
								if v, ok := in.(ssa.Value); ok && len(cc.Args) > 0 {
									// the result shares arg0's array or is the new one (the site itself); appended
									// values are stored into both
									if flow(v, get(cc.Args[0])) {
										changed = true
									}
									for _, a := range cc.Args[1:] {
										vs := get(a)
										// append(s, t...): the elements of t, i.e. what t's sites contain
										if _, isSlice := a.Type().Underlying().(*types.Slice); isSlice && cc.Signature().Variadic() {
											el := siteSet{}
											for ts := range vs {
												addAll(el, contents[ts])
											}
											vs = el
										}
										if store(get(v), vs) {
											changed = true
										}
									}
								}
							}
							if bi.Name() == "copy" && len(cc.Args) == 2 {
								el := siteSet{}
								for ts := range get(cc.Args[1]) {
									addAll(el, contents[ts])
								}
								if store(get(cc.Args[0]), el) {
									changed = true
								}
							}
							break
						}
						cf := staticCallee(cc)
						if cf != nil && inFamily[cf] && cf != root {
							for i, a := range cc.Args {
								if i < len(cf.Params) && flow(cf.Params[i], get(a)) {
									changed = true
								}
							}
						}
					}
				}
			}
		}
	}
	// definite(v): v certainly holds nil or (an address inside) a site, never a pointer the analysis does not track.
	storesInto := map[ssa.Value][]ssa.Value{} // site -> values stored into it
	closureSites := map[*ssa.Function][]*ssa.MakeClosure{}
	for _, f := range fns {
		for _, b := range f.Blocks {
			for _, in := range b.Instrs {
				switch x := in.(type) {
				case *ssa.Store:
					for a := range get(x.Addr) {
						storesInto[a] = append(storesInto[a], x.Val)
					}
				case *ssa.MapUpdate:
					for a := range get(x.Map) {
						storesInto[a] = append(storesInto[a], x.Value, x.Key)
					}
				case *ssa.MakeClosure:
					if cf, ok := x.Fn.(*ssa.Function); ok {
						closureSites[cf] = append(closureSites[cf], x)
					}
				case *ssa.Call:
					if c, ok := isAppend(in); ok {
						for a := range get(c) {
							// appended values (for t... the elements of t are covered by t's own sites being tracked;
							// an untracked t makes the array indefinite)
							storesInto[a] = append(storesInto[a], c.Call.Args[1:]...)
						}
					}
				}
			}
		}
	}
	defMemo := map[ssa.Value]int{} // 1 in progress / true, 2 false
	var definite func(v ssa.Value) bool
	cellDefinite := func(a ssa.Value) bool {
		for _, sv := range storesInto[a] {
			if pointerLike(sv.Type()) && !definite(sv) {
				return false
			}
		}
		return true
	}
	definite = func(v ssa.Value) bool {
		if m, ok := defMemo[v]; ok {
			return m == 1
		}
		defMemo[v] = 1
		r := false
		switch x := v.(type) {
		case *ssa.Alloc:
			r = sites[x]
		case *ssa.MakeSlice, *ssa.MakeMap:
			r = true
		case *ssa.Const:
			r = true
		case *ssa.Call:
			if c, ok := isAppend(x); ok {
				r = len(c.Call.Args) > 0 && definite(c.Call.Args[0])
			} else {
				r = sites[x]
			}
		case *ssa.FieldAddr:
			r = definite(x.X)
		case *ssa.IndexAddr:
			r = definite(x.X)
		case *ssa.Slice:
			r = definite(x.X)
		case *ssa.ChangeType:
			r = definite(x.X)
		case *ssa.Phi:
			r = true
			for _, ed := range x.Edges {
				if !definite(ed) {
					r = false
				}
			}
		case *ssa.UnOp:
			if x.Op.String() == "*" && definite(x.X) {
				r = true
				for a := range get(x.X) {
					if !cellDefinite(a) {
						r = false
					}
				}
			}
		case *ssa.FreeVar:
			cf := x.Parent()
			idx := -1
			for i, fv := range cf.FreeVars {
				if fv == x {
					idx = i
				}
			}
			scs := closureSites[cf]
			r = idx >= 0 && len(scs) > 0
			for _, mc := range scs {
				if idx < 0 || idx >= len(mc.Bindings) || !definite(mc.Bindings[idx]) {
					r = false
				}
			}
		}
		if r {
			defMemo[v] = 1
		} else {
			defMemo[v] = 2
		}
		return r
	}
	leaked := siteSet{}
	leak := func(s siteSet) {
		for a := range s {
			leaked[a] = true
		}
	}
	closureEscapes := func(mc *ssa.MakeClosure) bool {
		refs := mc.Referrers()
		if refs == nil {
			return true
		}
		for _, r := range *refs {
			switch u := r.(type) {
			case ssa.CallInstruction:
				if _, isGo := u.(*ssa.Go); isGo || u.Common().Value != mc {
					return true
				}
				for _, a := range u.Common().Args {
					if a == mc {
						return true
					}
				}
			case *ssa.DebugRef:
			case *ssa.Store:
				// `f := func(...) {...}`: the closure is kept in a local variable; fine when that variable is only ever
				// loaded to be called
				al, ok := u.Addr.(*ssa.Alloc)
				if !ok || u.Val != mc || !localOnlyCalled(al) {
					return true
				}
			default:
				return true
			}
		}
		return false
	}
	for _, f := range fns {
		for _, b := range f.Blocks {
			for _, in := range b.Instrs {
				switch x := in.(type) {
				case *ssa.Alloc, *ssa.FieldAddr, *ssa.IndexAddr, *ssa.Field, *ssa.Index, *ssa.Slice, *ssa.Phi, *ssa.ChangeType,
					*ssa.Convert, *ssa.Extract, *ssa.DebugRef, *ssa.If, *ssa.Jump, *ssa.RunDefers, *ssa.BinOp, *ssa.Range, *ssa.Next,
					*ssa.MakeSlice, *ssa.MakeMap, *ssa.Lookup, *ssa.Panic, *ssa.UnOp:
					// address arithmetic, loads, comparisons, control flow: no leak by themselves
				case *ssa.Store:
					if vs := get(x.Val); len(vs) > 0 && !definite(x.Addr) {
						leak(vs) // stored through a pointer that may lead anywhere
					}
				case *ssa.MapUpdate:
					if !definite(x.Map) {
						leak(get(x.Value))
						leak(get(x.Key))
					}
				case *ssa.MakeClosure:
					cf, ok := x.Fn.(*ssa.Function)
					if !ok || !inFamily[cf] || closureEscapes(x) {
						for _, bv := range x.Bindings {
							leak(get(bv))
						}
					}
				case *ssa.Return:
					if f != root {
						for _, r := range x.Results {
							leak(get(r))
						}
					}
				case *ssa.Go:
					leak(get(x.Call.Value))
					for _, a := range x.Call.Args {
						leak(get(a))
					}
					if mc, ok := x.Call.Value.(*ssa.MakeClosure); ok {
						for _, bv := range mc.Bindings {
							leak(get(bv))
						}
					}
				case ssa.CallInstruction:
					cc := x.Common()
					if cc.IsInvoke() {
						safe := false
						if cc.Method != nil {
							if xs := e.externs[invokeName(cc)]; xs != nil && xs.Pure {
								safe = true
							}
						}
						if !safe {
							leak(get(cc.Value))
							for _, a := range cc.Args {
								leak(get(a))
							}
						}
						break
					}
					if bi, ok := cc.Value.(*ssa.Builtin); ok {
						if bi.Name() == "append" && len(cc.Args) > 0 {
							if v, ok := in.(ssa.Value); ok && !definite(v) {
								// appending into an array we know nothing about
								for _, a := range cc.Args[1:] {
									leak(get(a))
								}
							}
						}
						break
					}
					cf := staticCallee(cc)
					if cf != nil && inFamily[cf] && cf != root {
						break // arguments flow into the closure's parameters (handled above)
					}
					if cf != nil && (e.calleeKeepsNothing(cf) || e.isConstructor(cf)) {
						if e.isConstructor(cf) {
							// a constructor stores its arguments in the object it returns
							if v, ok := in.(ssa.Value); ok {
								for _, a := range cc.Args {
									if vs := get(a); len(vs) > 0 {
										store(get(v), vs)
									}
								}
							}
						}
						break
					}
					leak(get(cc.Value))
					for _, a := range cc.Args {
						leak(get(a))
					}
				default:
					// MakeInterface, Send, TypeAssert, ChangeInterface, Select, ...: every operand leaks
					for _, op := range in.Operands(nil) {
						if op != nil && *op != nil {
							leak(get(*op))
						}
					}
				}
			}
		}
	}
	// contents of leaked sites are leaked
	for changed := true; changed; {
		changed = false
		for a := range leaked {
			for c := range contents[a] {
				if !leaked[c] {
					leaked[c] = true
					changed = true
				}
			}
		}
	}
	out := map[ssa.Value]bool{}
	consider := func(v ssa.Value) {
		s := get(v)
		if len(s) == 0 || !definite(v) {
			return
		}
		for a := range s {
			if leaked[a] {
				return
			}
		}
		switch v.Type().Underlying().(type) {
		case *types.Pointer, *types.Slice, *types.Map:
			out[v] = true
		}
	}
	for _, f := range fns {
		for _, p := range f.Params {
			consider(p)
		}
		for _, fv := range f.FreeVars {
			consider(fv)
		}
		for _, b := range f.Blocks {
			for _, in := range b.Instrs {
				if v, ok := in.(ssa.Value); ok {
					consider(v)
				}
			}
		}
	}
	return out
}

// localOnlyCalled: every use of the local variable al is a store into it, or a load whose value is only used as the
// callee of a call/defer (never passed on, stored elsewhere or returned).
func localOnlyCalled(al *ssa.Alloc) bool {
	refs := al.Referrers()
	if refs == nil {
		return false
	}
	for _, r := range *refs {
		switch u := r.(type) {
		case *ssa.Store:
			if u.Addr != al {
				return false
			}
		case *ssa.DebugRef:
		case *ssa.UnOp:
			lrefs := u.Referrers()
			if lrefs == nil {
				return false
			}
			for _, lr := range *lrefs {
				switch c := lr.(type) {
				case *ssa.DebugRef:
				case ssa.CallInstruction:
					if _, isGo := c.(*ssa.Go); isGo || c.Common().Value != u {
						return false
					}
					for _, a := range c.Common().Args {
						if a == u {
							return false
						}
					}
				default:
					return false
				}
			}
		default:
			return false
		}
	}
	return true
}

// pointerLike: values of this type can carry a pointer.
func pointerLike(t types.Type) bool {
	switch u := t.Underlying().(type) {
	case *types.Basic:
		return u.Kind() == types.UnsafePointer
	case *types.Struct:
		for i := 0; i < u.NumFields(); i++ {
			if pointerLike(u.Field(i).Type()) {
				return true
			}
		}
		return false
	case *types.Array:
		return pointerLike(u.Elem())
	case *types.Tuple:
		for i := 0; i < u.Len(); i++ {
			if pointerLike(u.At(i).Type()) {
				return true
			}
		}
		return false
	}
	return true
}

func invokeName(cc *ssa.CallCommon) string {
	recv := cc.Value.Type()
	if n, ok := recv.(*types.Named); ok {
		pkg := ""
		if n.Obj().Pkg() != nil {
			pkg = n.Obj().Pkg().Name()
		}
		if pkg == "" {
			return n.Obj().Name() + "." + cc.Method.Name()
		}
		return pkg + "." + n.Obj().Name() + "." + cc.Method.Name()
	}
	return cc.Method.Name()
}

// calleeKeepsNothing: a static callee that cannot store its pointer arguments anywhere a later call could find them:
// pure functions (declared or library) and library functions with an extern contract (their effects are confined to
// the abstract state of the library object they are called on).
func (e *Engine) calleeKeepsNothing(fn *ssa.Function) bool {
	name := calleeName(fn)
	if fs := e.specOf(fn); fs != nil {
		return fs.Pure
	}
	pkgPath := ""
	if fn.Pkg != nil {
		pkgPath = fn.Pkg.Pkg.Path()
	} else if o := fn.Object(); o != nil && o.Pkg() != nil {
		pkgPath = o.Pkg().Path()
	}
	module := strings.HasPrefix(pkgPath, "oss.terrastruct.com/")
	if xs := e.externs[name]; xs != nil {
		return xs.Pure || !module
	}
	if !module && (pureLibPkgs[pkgPath] || pureLibFuncs[name]) {
		return true
	}
	return false
}

// keepPrivate is called by havocAll with the heap as it was before the havoc: the memory behind every private value
// of an activation on the call chain is the same afterwards.
func (a *act) keepPrivate(st *State, oldHeap map[string]Term, oldEpoch string) {
	e := a.e
	log := e.cur.log
	old := func(name string, srt Sort) Term {
		if t, ok := oldHeap[name]; ok {
			return t
		}
		return log.declConst(name+"@"+oldEpoch, srt)
	}
	done := map[string]bool{}
	keep := func(name string, srt Sort, r Term) {
		k := name + "|" + r.S
		if done[k] || isLiteralTerm(r) {
			return
		}
		done[k] = true
		log.assert(eq(sel(e.heapGet(st, name, srt), r), sel(old(name, srt), r)))
	}
	for p := a; p != nil; p = p.caller {
		if p.fn == nil {
			continue
		}
		priv := e.privateVals(p.fn)
		if len(priv) == 0 {
			continue
		}
		var vs []ssa.Value
		for v := range p.vals {
			if priv[v] {
				vs = append(vs, v)
			}
		}
		sort.Slice(vs, func(i, j int) bool {
			if vs[i].Pos() != vs[j].Pos() {
				return vs[i].Pos() < vs[j].Pos()
			}
			return vs[i].Name() < vs[j].Name()
		})
		for _, v := range vs {
			pv := p.vals[v]
			if len(pv.T) == 0 || pv.T[0].S == "" {
				continue
			}
			r := pv.T[0]
			switch t := v.Type().Underlying().(type) {
			case *types.Slice:
				for _, l := range e.layout(t.Elem()) {
					keep(elemHeapName(t.Elem(), l.Path), arrSort(SInt, arrSort(SInt, l.Sort)), r)
				}
			case *types.Map:
				if mh := e.mapHeaps(t); mh != nil {
					keep(mh.dom, mh.domSort, r)
					for i, n := range mh.val {
						keep(n, mh.valSort[i], r)
					}
				}
			case *types.Pointer:
				if len(pv.T) != 1 {
					continue // an interior-pointer descriptor
				}
				et := t.Elem()
				if at, ok := et.Underlying().(*types.Array); ok {
					for _, l := range e.layout(at.Elem()) {
						keep(elemHeapName(at.Elem(), l.Path), arrSort(SInt, arrSort(SInt, l.Sort)), r)
					}
					continue
				}
				for _, l := range e.layout(et) {
					keep(objHeapName(et, l.Path), arrSort(SInt, l.Sort), r)
				}
				for _, sfName := range sortedKeys(e.specFuncs) {
					sf := e.specFuncs[sfName]
					if !sf.Ghost || len(sf.Params) != 1 {
						continue
					}
					srt, ok := e.cur.heapSorts["G_"+sf.Name]
					if !ok {
						continue
					}
					env := e.newEnv(a, st)
					pt, err := env.parseType(sf.Params[0].Type)
					if err != nil {
						continue
					}
					pp, ok := pt.Underlying().(*types.Pointer)
					if !ok || typeKey(pp.Elem()) != typeKey(et) {
						continue
					}
					keep("G_"+sf.Name, srt, r)
				}
			}
		}
	}
}

// moduleGhost: the ghost family belongs to a ghost declared in a contract file of a module package (ghost state of
// the program's own objects, changed only by `ghostset` clauses): its frame is checked like that of real memory.
func (e *Engine) moduleGhost(name string) bool {
	sf, ok := e.specFuncs[name]
	return ok && sf.Ghost && sf.Pkg != ""
}
