package main

// Ledger comparison, evidence, violation / known-finding reporting.

import (
	"encoding/json"
	"fmt"
	"os"
	"path/filepath"
	"regexp"
	"sort"
	"strconv"
	"strings"
	"time"
)

type ledgerEntry struct {
	Claimed   []string          `json:"claimed"`
	Unclaimed map[string]string `json:"unclaimed,omitempty"`
	// claimed groups that come from a `sweep-package` directive (functions without a contract of their own). Their
	// names are made of the source text of the index/slice expression, so a harmless rename makes a name vanish:
	// a vanished package-sweep name is recorded in the evidence, not reported as a violation (a failing one is).
	Sweep []string `json:"sweep,omitempty"`
	// per "function/kind" of package-sweep functions: how many obligation instances discharged on the reference tree
	SweepOK map[string]int `json:"sweep_ok,omitempty"`
}

// sweepNamed: the obligation's name is made of the source text of the checked expression (index, slice, ... of a
// package-sweep unit or of a function whose contract says `sweep`): a rename makes the name vanish without anything
// being wrong, so such names are tracked per function/kind (see checkSweep) instead of one by one.
func sweepNamed(ob *Obligation) bool {
	return ob.Cheap || safetyKinds[ob.Kind]
}

func sweepBucket(name string) string {
	fn, rest, _ := strings.Cut(name, "/")
	kind, _, _ := strings.Cut(rest, ":")
	return fn + "/" + kind
}

func sweepOKCounts(all []*Obligation, unclaimed map[string]string) map[string]int {
	m := map[string]int{}
	for _, ob := range all {
		if _, un := unclaimed[ob.group()]; un {
			continue // instances of an unclaimed group are not run in the quick tier
		}
		if sweepNamed(ob) && !ob.Auto && !ob.Smoke && !ob.kfUnrestricted && obOK(ob) {
			m[sweepBucket(ob.Name)]++
		}
	}
	return m
}

type Ledger map[string]*ledgerEntry

func loadLedger(verif string) Ledger {
	l := Ledger{}
	data, err := os.ReadFile(filepath.Join(verif, "contracts", "ledger.json"))
	if err == nil {
		_ = json.Unmarshal(data, &l)
	}
	return l
}

func saveLedger(verif string, l Ledger) error {
	_ = os.MkdirAll(filepath.Join(verif, "contracts"), 0o755)
	data, _ := json.MarshalIndent(l, "", " ")
	return os.WriteFile(filepath.Join(verif, "contracts", "ledger.json"), append(data, '\n'), 0o644)
}

type KnownFinding struct {
	Property   string `json:"property"`
	Obligation string `json:"obligation"`
	What       string `json:"what"`
	Witness    string `json:"witness"`
	Region     string `json:"region,omitempty"` // spec expression over the function's parameters: where the obligation is known to fail
	// Via: call sites (callee#ordinal, in the function of the obligation) whose traversal makes the obligation fail: the
	// obligation is known to fail on paths through one of them and must still be proved on all other paths
	Via    []string `json:"via,omitempty"`
	Status string   `json:"status"` // open | fixed
	Commit     string `json:"commit,omitempty"`
}

func loadFindings(verif string) []KnownFinding {
	var fs struct {
		Findings []KnownFinding `json:"findings"`
	}
	data, err := os.ReadFile(filepath.Join(verif, "known_findings.json"))
	if err == nil {
		_ = json.Unmarshal(data, &fs)
	}
	return fs.Findings
}

var activeFindings []KnownFinding

func openFinding(prop, ob string) *KnownFinding {
	for i := range activeFindings {
		f := &activeFindings[i]
		if f.Status == "open" && (f.Obligation == ob || (len(f.Via) > 0 && f.Obligation == instSuffix.ReplaceAllString(ob, ""))) && (prop == "" || f.Property == prop) {
			return f
		}
	}
	return nil
}

type violation struct {
	Obligation string `json:"obligation"`
	Reason     string `json:"reason"`
	Pos        string `json:"pos,omitempty"`
	Solver     string `json:"solver,omitempty"`
	Status     string `json:"status,omitempty"`
	Output     string `json:"solver_output,omitempty"`
	SmtFile    string `json:"smt_file,omitempty"`
	Replay     string `json:"replay_result,omitempty"`
	Reproduced bool   `json:"reproduced_on_real_code"`
	ReplayTest string `json:"replay_test,omitempty"`
	Function   string `json:"function,omitempty"`
	Property   string `json:"property"`
}

var instSuffix = regexp.MustCompile(`#\d+$`)

// group: the obligation name without its "#k" instance suffix (the ledger is keyed by group).
func (ob *Obligation) group() string { return instSuffix.ReplaceAllString(ob.Name, "") }

func obOK(ob *Obligation) bool {
	if ob.Smoke {
		return ob.Result != "unsat"
	}
	return ob.Result == "unsat"
}

// sweepRenameFailures handles package-sweep obligations whose names changed. Package-sweep names are made of source
// text, so a vanished claimed name alone is not a violation (harmless rename). But per (function, kind): when a claimed
// name vanished or fewer instances discharge than on the reference tree (ledger sweep_ok), and MORE new names fail
// than unclaimed names vanished (i.e. the failures cannot all be renamed formerly-unclaimed obligations), the change
// turned a proved expression into an unproved one: those new failing obligations are returned and reported as
// violations.
func sweepRenameFailures(ent *ledgerEntry, isGenerated func(string) bool, all []*Obligation) []*Obligation {
	if ent == nil || len(ent.Sweep) == 0 {
		return nil
	}
	type bucket struct {
		goneClaimed, goneUnclaimed int
		newFail                    []*Obligation
	}
	buckets := map[string]*bucket{}
	get := func(name string) *bucket {
		k := sweepBucket(name)
		if buckets[k] == nil {
			buckets[k] = &bucket{}
		}
		return buckets[k]
	}
	claimed := map[string]bool{}
	for _, n := range ent.Claimed {
		claimed[n] = true
	}
	for _, n := range ent.Sweep {
		if !isGenerated(n) {
			get(n).goneClaimed++
		}
	}
	for n := range ent.Unclaimed {
		if !isGenerated(n) {
			get(n).goneUnclaimed++
		}
	}
	seen := map[string]bool{}
	for _, ob := range all {
		if !sweepNamed(ob) || ob.Auto || ob.Smoke || ob.kfUnrestricted || obOK(ob) || ob.Result == "skipped-unclaimed" {
			continue
		}
		g := ob.group()
		if _, un := ent.Unclaimed[g]; un || claimed[g] || seen[g] {
			continue
		}
		seen[g] = true
		b := get(g)
		b.newFail = append(b.newFail, ob)
	}
	var keys []string
	for k := range buckets {
		keys = append(keys, k)
	}
	sort.Strings(keys)
	var out []*Obligation
	okNow := sweepOKCounts(all, ent.Unclaimed)
	for _, k := range keys {
		b := buckets[k]
		if (b.goneClaimed >= 1 || okNow[k] < ent.SweepOK[k]) && len(b.newFail) > b.goneUnclaimed {
			out = append(out, b.newFail...)
		}
	}
	return out
}

func finishCheck(o checkOpts, results []*funcResult, e *Engine, problems []string, start time.Time, update bool) int {
	ledger := loadLedger(o.verif)
	ent := ledger[o.prop]
	if ent == nil {
		ent = &ledgerEntry{}
	}
	claimed := map[string]bool{}
	for _, n := range ent.Claimed {
		claimed[n] = true
	}
	generated := map[string]*Obligation{}
	var all []*Obligation
	var specErrs []string
	specErrs = append(specErrs, problems...)
	for _, r := range results {
		specErrs = append(specErrs, r.ctx.anchorErrs...)
		for _, ob := range r.ctx.obligations {
			generated[ob.Name] = ob
			generated[ob.group()] = ob
			all = append(all, ob)
		}
	}
	if update {
		ne := &ledgerEntry{Unclaimed: map[string]string{}}
		// the ledger holds obligation groups (name without the "#k" instance suffix): a group is claimed when
		// every instance discharges, so that the number of instances (back edges, repeated sites) may change
		groupBad := map[string]string{}
		var groups []string
		seen := map[string]bool{}
		for _, ob := range all {
			if ob.kfUnrestricted || ob.Auto {
				continue
			}
			g := ob.group()
			if !seen[g] {
				seen[g] = true
				groups = append(groups, g)
			}
			if !obOK(ob) {
				groupBad[g] = ob.Result
			} else if !ob.Smoke && ob.Ms > int64(o.timeoutS)*400 {
				// discharged, but too close to the time limit to be claimed (it would be flaky under load)
				groupBad[g] = fmt.Sprintf("discharged in %d ms, more than 40%% of the %d s limit: not claimed", ob.Ms, o.timeoutS)
			}
		}
		// contracts/unclaim.json: obligations that discharge only because they may assume something that is itself
		// unclaimed (e.g. postconditions resting on a loop invariant whose preservation is undecided)
		var unclaim map[string][]struct{ Match, Reason string }
		if data, err := os.ReadFile(filepath.Join(o.verif, "contracts", "unclaim.json")); err == nil {
			_ = json.Unmarshal(data, &unclaim)
		}
		for _, g := range groups {
			if why, bad := groupBad[g]; bad {
				ne.Unclaimed[g] = "not discharged on the reference tree: " + why
				continue
			}
			dep := ""
			for _, u := range unclaim[o.prop] {
				if strings.Contains(g, u.Match) {
					dep = u.Reason
				}
			}
			if dep != "" {
				ne.Unclaimed[g] = "not claimed: " + dep
			} else {
				ne.Claimed = append(ne.Claimed, g)
				if ob := generated[g]; ob != nil && sweepNamed(ob) {
					ne.Sweep = append(ne.Sweep, g)
				}
			}
		}
		sort.Strings(ne.Claimed)
		sort.Strings(ne.Sweep)
		if len(ne.Sweep) > 0 {
			ne.SweepOK = sweepOKCounts(all, ne.Unclaimed)
		}
		ledger[o.prop] = ne
		if err := saveLedger(o.verif, ledger); err != nil {
			fmt.Fprintln(os.Stderr, err)
			return 2
		}
		fmt.Printf("ledger[%s]: %d claimed, %d unclaimed\n", o.prop, len(ne.Claimed), len(ne.Unclaimed))
		for n, why := range ne.Unclaimed {
			fmt.Printf("  unclaimed %s (%s)\n", n, why)
		}
		for _, s := range specErrs {
			fmt.Println("  SPEC-ERROR", s)
		}
		ent = ne
		claimed = map[string]bool{}
		for _, n := range ent.Claimed {
			claimed[n] = true
		}
	}

	var viols []*violation
	nClaimed, nDischarged := 0, 0
	newOK, newUndecided := 0, 0
	var undecidedNew []string
	var samples []map[string]any
	solverMs := int64(0)
	bySolver := map[string]int{}
	var knownLines []string
	kfAllUnsat := map[string]bool{}
	var kfOrder []*KnownFinding
	for _, ob := range all {
		solverMs += ob.Ms
		if ob.kfUnrestricted {
			f := openFinding(o.prop, ob.kfName)
			if f != nil {
				// one line per finding: an obligation with several instances (#k) has one unrestricted form each, and the
				// finding stands as long as any of them fails
				if _, seen := kfAllUnsat[f.Obligation]; !seen {
					kfAllUnsat[f.Obligation] = true
					kfOrder = append(kfOrder, f)
				}
				if ob.Result != "unsat" {
					kfAllUnsat[f.Obligation] = false
				}
			}
			continue
		}
		ok := obOK(ob)
		if ob.Auto {
			// helper obligations of uncontracted loops (range-index bounds, frame): later proofs assume them, so
			// they are always checked; they are not named in the ledger because their names follow the loop text
			nClaimed++
			if ok {
				nDischarged++
				bySolver[ob.Solver]++
			} else {
				viols = append(viols, &violation{Obligation: ob.Name, Reason: "helper loop obligation fails: " + ob.Result, Pos: ob.Pos, Solver: ob.Solver, Status: ob.Result, Output: trunc(ob.Output, 4000), SmtFile: ob.SmtFile, Function: ob.Fn, Property: o.prop})
			}
			continue
		}
		if claimed[ob.group()] {
			nClaimed++
			if ok {
				nDischarged++
				bySolver[ob.Solver]++
				if len(samples) < 6 {
					samples = append(samples, map[string]any{"obligation": ob.Name, "kind": ob.Kind, "solver": ob.Solver, "ms": ob.Ms, "pos": ob.Pos, "agree": ob.Agree})
				}
			} else {
				reason := "claimed obligation no longer discharges: " + ob.Result
				if ob.Smoke {
					reason = "vacuity: the function exit is unreachable under its preconditions"
				}
				viols = append(viols, &violation{Obligation: ob.Name, Reason: reason, Pos: ob.Pos, Solver: ob.Solver, Status: ob.Result, Output: trunc(ob.Output, 4000), SmtFile: ob.SmtFile, Function: ob.Fn, Property: o.prop})
			}
			continue
		}
		if ok {
			newOK++
		} else {
			newUndecided++
			undecidedNew = append(undecidedNew, ob.Name+" ("+ob.Result+")")
		}
	}
	sweepName := map[string]bool{}
	for _, n := range ent.Sweep {
		sweepName[n] = true
	}
	sweepGone := []string{}
	for n := range claimed {
		if _, ok := generated[n]; !ok {
			if sweepName[n] {
				sweepGone = append(sweepGone, n)
				continue
			}
			nClaimed++
			viols = append(viols, &violation{Obligation: n, Reason: "claimed obligation was not generated (function, loop or call anchor no longer matches)", Property: o.prop})
		}
	}
	reported := map[string]bool{}
	for _, ob := range sweepRenameFailures(ent, func(n string) bool { _, ok := generated[n]; return ok }, all) {
		nClaimed++
		reported[ob.Name] = true
		viols = append(viols, &violation{Obligation: ob.Name, Reason: "package sweep: a claimed " + ob.Kind + " obligation of this function is no longer generated and this new one does not discharge (" + ob.Result + "): the changed expression is no longer proved safe", Pos: ob.Pos, Solver: ob.Solver, Status: ob.Result, Output: trunc(ob.Output, 4000), SmtFile: ob.SmtFile, Function: ob.Fn, Property: o.prop})
	}
	// contract clauses that cannot be bound or evaluated on the current tree (renamed parameter, vanished field or
	// function, changed signature): one violation per function, listing the clauses
	{
		byFn := map[string][]string{}
		var order []string
		for _, s := range specErrs {
			fn := s
			if k := strings.Index(s, ": "); k > 0 {
				fn = s[:k]
			}
			if _, ok := byFn[fn]; !ok {
				order = append(order, fn)
			}
			byFn[fn] = append(byFn[fn], s)
		}
		for _, fn := range order {
			list := byFn[fn]
			reason := fmt.Sprintf("%d contract clause(s) could not be bound/evaluated on the current tree (the proof cannot be upheld): %s", len(list), trunc(strings.Join(list, " | "), 1500))
			viols = append(viols, &violation{Obligation: "spec:" + trunc(fn, 120), Reason: reason, Property: o.prop})
		}
	}
	sort.Slice(viols, func(i, j int) bool { return viols[i].Obligation < viols[j].Obligation })

	// new failing obligations: violation only when the counterexample replays on the real code
	for _, ob := range all {
		if claimed[ob.group()] || ob.kfUnrestricted || obOK(ob) || ob.Smoke || ob.Auto || reported[ob.Name] {
			continue
		}
		if ob.Cheap && ob.Result != "sat" {
			// package sweep, focused query only: there is no model to replay
			continue
		}
		if _, un := ent.Unclaimed[ob.group()]; un {
			continue
		}
		if ob.Result != "sat" && ob.Kind != "ensures" && !safetyKinds[ob.Kind] {
			continue
		}
		v := &violation{Obligation: ob.Name, Reason: "new obligation fails and its failure replays on the real code", Pos: ob.Pos, Solver: ob.Solver, Status: ob.Result, Output: trunc(ob.Output, 4000), SmtFile: ob.SmtFile, Function: ob.Fn, Property: o.prop}
		if tryReplay(o, e, results, ob, v) {
			viols = append(viols, v)
		}
	}

	// replay + report
	replayDir := filepath.Join(o.verif, "replay", o.prop)
	_ = os.MkdirAll(replayDir, 0o755)
	for _, v := range viols {
		if ob := generated[v.Obligation]; ob != nil && !v.Reproduced && v.Replay == "" {
			tryReplay(o, e, results, ob, v)
		}
		name := sanitize(v.Obligation)
		if len(name) > 150 {
			name = name[:150]
		}
		path := filepath.Join(replayDir, name+".json")
		data, _ := json.MarshalIndent(v, "", " ")
		_ = os.WriteFile(path, append(data, '\n'), 0o644)
		line := fmt.Sprintf("VIOLATION property=%s replay=%s", o.prop, path)
		if !v.Reproduced {
			line += " no-failing-input-found"
		}
		fmt.Printf("%s\n", line)
		fmt.Printf("  obligation: %s\n  reason: %s\n", v.Obligation, v.Reason)
	}
	for _, f := range kfOrder {
		l := fmt.Sprintf("KNOWN-FINDING: property=%s %s — %s", o.prop, f.Obligation, f.What)
		if kfAllUnsat[f.Obligation] {
			l += " (note: the unrestricted obligation now discharges; the finding may be fixed)"
		}
		knownLines = append(knownLines, l)
	}
	for _, l := range knownLines {
		fmt.Println(l)
	}

	// evidence
	var funcs []string
	opaque := map[string]int{}
	externs := map[string]bool{}
	trusted := map[string]bool{}
	abstr := map[string]int{}
	inl := map[string]int{}
	var entryPre []string
	for _, r := range results {
		funcs = append(funcs, r.ctx.fn)
		// every `requires` of a verified function is an assumption at its entry; it is an obligation only at the call
		// sites that are themselves under contract (and a `@typeinv` one is not even that outside its package)
		if r.fs != nil {
			for _, c := range r.fs.Requires {
				kind := "precondition assumed at the entry of "
				if hasProp(c.Props, "typeinv") {
					kind = "type invariant assumed at the entry of (and by callers outside the package of) "
				}
				entryPre = append(entryPre, kind+r.ctx.fn+": ["+c.Label+"]")
			}
		}
		for k, v := range r.ctx.opaqueCalls {
			opaque[r.ctx.fn+" -> "+k] += v
		}
		for k := range r.ctx.externsUsed {
			externs[k] = true
		}
		for k := range r.ctx.trustedUsed {
			trusted[k] = true
		}
		for k, v := range r.ctx.abstractions {
			abstr[r.ctx.fn+": "+k] += v
		}
		for k, v := range r.ctx.inlined {
			inl[k] += v
		}
	}
	sort.Strings(undecidedNew)
	sort.Strings(sweepGone)
	retried := []string{}
	for _, ob := range all {
		if ob.Retried {
			retried = append(retried, fmt.Sprintf("%s -> %s (%s, %d ms)", ob.Name, ob.Result, ob.Solver, ob.Ms))
		}
	}
	var unclaimedList []string
	for n, why := range ent.Unclaimed {
		unclaimedList = append(unclaimedList, n+" — "+why)
	}
	sort.Strings(unclaimedList)
	seed, _ := strconv.Atoi(os.Getenv("VERIF_SEED"))
	cov := map[string]any{
		"obligations":            nClaimed,
		"discharged":             nDischarged,
		"checker_cmd":            fmt.Sprintf("/verif/bin/d2vc check -prop %s -tier %s  (VCs regenerated from /repo by go/ssa; solvers raced: z3 4.8.12, z3-new 5.1.0, cvc5 1.0; limit %ds)", o.prop, o.tier, o.timeoutS),
		"trusted_base":           trustedBase(externs, trusted),
		"samples":                samples,
		"functions_under_contract": funcs,
		"discharged_by_solver":   bySolver,
		"solver_ms_total":        solverMs,
		"new_obligations_discharged": newOK,
		"undecided_new":          undecidedNew,
		"unclaimed":              unclaimedList,
		"opaque_calls":           opaque,
		"inlined_callees":        inl,
		"abstractions":           abstr,
		"external_contracts_used": keys(externs),
		"trusted_contracts_used": keys(trusted),
		"known_findings":         knownLines,
		"two_solver_agreement":   o.agree,
		"retried_with_3x_limit":  retried,
		"package_sweep_names_no_longer_generated": sweepGone,
		"package_sweep_functions_not_analysable":  sweepSkipped,
	}
	// bounded differential validation of assumed library contracts, produced by bin/validate_externals (./check)
	if data, err := os.ReadFile(filepath.Join(o.verif, "work", "bounded_"+o.prop+".json")); err == nil {
		var bc map[string]any
		if json.Unmarshal(data, &bc) == nil {
			cov["bounded_checks"] = bc
			if f, ok := bc["failed"].(float64); ok && f > 0 {
				v := &violation{Obligation: "external-contract-validation", Reason: "an assumed library contract was refuted by the bounded differential test: " + trunc(string(data), 1500), Property: o.prop}
				path := filepath.Join(replayDir, "external_contract_validation.json")
				vd, _ := json.MarshalIndent(v, "", " ")
				_ = os.WriteFile(path, vd, 0o644)
				fmt.Printf("VIOLATION property=%s replay=%s\n  obligation: external-contract-validation\n", o.prop, path)
				viols = append(viols, v)
			}
		}
	}
	ev := map[string]any{
		"property_id": o.prop,
		"tier":        o.tier,
		"seed":        seed,
		"level":       "proof",
		"coverage":    cov,
		"assumptions": append(assumptionsList(externs, trusted, opaque, abstr), entryPre...),
		"wall_s":      time.Since(start).Seconds(),
		"violations":  len(viols),
	}
	// VERIF_EVIDENCE_DIR: runs against a deliberately changed tree (tools/confirm_seed.sh) write their evidence
	// elsewhere, so that the files under /verif/evidence always describe a run of the registered command
	evDir := filepath.Join(o.verif, "evidence")
	if d := os.Getenv("VERIF_EVIDENCE_DIR"); d != "" {
		evDir = d
	}
	_ = os.MkdirAll(evDir, 0o755)
	data, _ := json.MarshalIndent(ev, "", " ")
	if err := os.WriteFile(filepath.Join(evDir, o.prop+".json"), append(data, '\n'), 0o644); err != nil {
		fmt.Fprintln(os.Stderr, "d2vc: cannot write evidence:", err)
		return 2
	}
	if !o.quiet {
		fmt.Printf("%s %s: %d/%d claimed obligations discharged, %d new discharged, %d new undecided, %d violations, %.1fs\n",
			o.prop, o.tier, nDischarged, nClaimed, newOK, newUndecided, len(viols), time.Since(start).Seconds())
	}
	if len(viols) > 0 {
		return 1
	}
	if nClaimed == 0 {
		fmt.Println("no claimed obligations for", o.prop)
		return 2
	}
	return 0
}

var bounded = map[string]any{}

func keys(m map[string]bool) []string {
	var out []string
	for k := range m {
		out = append(out, k)
	}
	sort.Strings(out)
	return out
}

func trustedBase(externs, trusted map[string]bool) []string {
	tb := []string{
		"T1 go/types + x/tools/go/ssa v0.50.0 (NaiveForm) translate the Go source faithfully",
		"T2 SMT solvers z3 4.8.12 / z3 5.1.0 / cvc5 1.0.x are sound",
		"T3 d2vc VC generator (mitigated by the must-fail selftest corpus)",
		"A1 integers are mathematical (no overflow)",
		"A2 float64 modelled as reals (no rounding, no NaN/Inf) unless the function is in IEEE mode",
		"A4 no concurrency inside verified functions",
		"A5 allocation never fails",
		"A8 pointers to scalars never alias struct fields or slice elements",
		"partial correctness: postconditions hold if the function returns normally; panic-freedom only where a sweep obligation is claimed",
	}
	for _, k := range keys(externs) {
		tb = append(tb, "A3 external/library contract: "+k)
	}
	for _, k := range keys(trusted) {
		tb = append(tb, "trusted (unverified) contract: "+k)
	}
	return tb
}

func assumptionsList(externs, trusted map[string]bool, opaque, abstr map[string]int) []string {
	var out []string
	for _, k := range keys(externs) {
		out = append(out, "external contract assumed: "+k)
	}
	for _, k := range keys(trusted) {
		out = append(out, "trusted contract assumed: "+k)
	}
	var os_ []string
	for k, n := range opaque {
		os_ = append(os_, fmt.Sprintf("opaque call (result and heap havocked): %s ×%d", k, n))
	}
	sort.Strings(os_)
	out = append(out, os_...)
	var as []string
	for k, n := range abstr {
		as = append(as, fmt.Sprintf("abstracted: %s ×%d", k, n))
	}
	sort.Strings(as)
	out = append(out, as...)
	out = append(out, "mathematical integers; reals for float64; termination not proved unless a decreases obligation is listed")
	return out
}

func cmdSelftest(args []string) int { return selftestMain(args) }

func fmtModel(m string) string { return strings.Join(strings.Fields(m), " ") }
