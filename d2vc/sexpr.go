package main

import (
	"fmt"
	"strings"
)

// Ground stage: skolemise the goal and instantiate universally quantified hypotheses at the skolem constants.
//
// The negated goal of an obligation `forall k :: R(k) ==> P(k)` is an existential: its bound variables become fresh
// constants. Every hypothesis `forall v :: H(v)` that occurs positively in an asserted fact (loop invariants, callee
// postconditions, spec-function axioms) is replaced by the conjunction of its instances at those constants (sorts
// permitting); facts in which a positive quantifier remains are dropped. The result is a SUBSET OF CONSEQUENCES of the
// original facts, so `unsat` is as good as on the original query, and it is (nearly) quantifier-free, so the
// point-wise arguments that carry quantified loop invariants ("the accumulator only moves outwards") are decided in
// milliseconds instead of depending on E-matching luck. `sat`/`unknown` from it mean nothing and fall through to the
// full query.

type sx struct {
	atom string
	list []*sx
	isL  bool
}

func parseSx(s string) (*sx, int, error) {
	i := 0
	var parse func() (*sx, error)
	skip := func() {
		for i < len(s) {
			c := s[i]
			if c == ' ' || c == '\n' || c == '\t' || c == '\r' {
				i++
				continue
			}
			if c == ';' {
				for i < len(s) && s[i] != '\n' {
					i++
				}
				continue
			}
			break
		}
	}
	parse = func() (*sx, error) {
		skip()
		if i >= len(s) {
			return nil, fmt.Errorf("eof")
		}
		switch s[i] {
		case '(':
			i++
			n := &sx{isL: true}
			for {
				skip()
				if i >= len(s) {
					return nil, fmt.Errorf("unclosed (")
				}
				if s[i] == ')' {
					i++
					return n, nil
				}
				c, err := parse()
				if err != nil {
					return nil, err
				}
				n.list = append(n.list, c)
			}
		case ')':
			return nil, fmt.Errorf("unexpected )")
		case '|':
			j := strings.IndexByte(s[i+1:], '|')
			if j < 0 {
				return nil, fmt.Errorf("unclosed |")
			}
			a := s[i : i+j+2]
			i += j + 2
			return &sx{atom: a}, nil
		case '"':
			j := i + 1
			for j < len(s) {
				if s[j] == '"' {
					if j+1 < len(s) && s[j+1] == '"' {
						j += 2
						continue
					}
					break
				}
				j++
			}
			a := s[i : j+1]
			i = j + 1
			return &sx{atom: a}, nil
		}
		j := i
		for j < len(s) && s[j] != '(' && s[j] != ')' && s[j] != ' ' && s[j] != '\n' && s[j] != '\t' && s[j] != '\r' {
			j++
		}
		a := s[i:j]
		i = j
		return &sx{atom: a}, nil
	}
	n, err := parse()
	return n, i, err
}

func (x *sx) write(sb *strings.Builder) {
	if !x.isL {
		sb.WriteString(x.atom)
		return
	}
	sb.WriteByte('(')
	for i, c := range x.list {
		if i > 0 {
			sb.WriteByte(' ')
		}
		c.write(sb)
	}
	sb.WriteByte(')')
}

func (x *sx) String() string {
	var sb strings.Builder
	x.write(&sb)
	return sb.String()
}

func (x *sx) head() string {
	if x.isL && len(x.list) > 0 && !x.list[0].isL {
		return x.list[0].atom
	}
	return ""
}

func sxAtom(a string) *sx { return &sx{atom: a} }
func sxList(xs ...*sx) *sx { return &sx{isL: true, list: xs} }

// subst replaces free occurrences of the atoms in m (bound occurrences under an inner binder of the same name are
// left alone).
func (x *sx) subst(m map[string]*sx) *sx {
	if !x.isL {
		if r, ok := m[x.atom]; ok {
			return r
		}
		return x
	}
	h := x.head()
	if (h == "forall" || h == "exists") && len(x.list) == 3 && x.list[1].isL {
		inner := map[string]*sx{}
		for k, v := range m {
			inner[k] = v
		}
		for _, b := range x.list[1].list {
			if b.isL && len(b.list) == 2 {
				delete(inner, b.list[0].atom)
			}
		}
		if len(inner) == 0 {
			return x
		}
		return sxList(x.list[0], x.list[1], x.list[2].subst(inner))
	}
	n := &sx{isL: true, list: make([]*sx, len(x.list))}
	for i, c := range x.list {
		n.list[i] = c.subst(m)
	}
	return n
}

func stripBang(x *sx) *sx {
	for x.head() == "!" && len(x.list) >= 2 {
		x = x.list[1]
	}
	return x
}

func (x *sx) hasQuant() bool {
	if !x.isL {
		return false
	}
	h := x.head()
	if h == "forall" || h == "exists" {
		return true
	}
	for _, c := range x.list {
		if c.hasQuant() {
			return true
		}
	}
	return false
}

type skolem struct {
	name string
	sort string
}

type grounder struct {
	sks  []skolem
	refs []string // reference terms of the goal (see indexTerms)
	n    int
	// number of genuine skolem constants (the first nskolem entries of sks; the rest are index terms)
	nskolem int
}

// usedAsRef: the bound variable v occurs as the index of a heap family constant, `(select HEAP v)`: it ranges over
// references, not over element positions.
func usedAsRef(x *sx, v string) bool {
	if !x.isL {
		return false
	}
	if x.head() == "select" && len(x.list) == 3 && !x.list[1].isL && !x.list[2].isL && x.list[2].atom == v {
		return true
	}
	for _, c := range x.list {
		if usedAsRef(c, v) {
			return true
		}
	}
	return false
}

// skolemize walks the goal formula F (which will be asserted NEGATED): a forall at positive polarity of F, or an exists
// at negative polarity, is existential in (not F) and gets fresh constants.
func (g *grounder) skolemize(x *sx, pos bool) *sx {
	if !x.isL {
		return x
	}
	switch h := x.head(); h {
	case "forall", "exists":
		if len(x.list) == 3 && x.list[1].isL && ((h == "forall") == pos) {
			m := map[string]*sx{}
			for _, b := range x.list[1].list {
				if !b.isL || len(b.list) != 2 {
					return x
				}
				g.n++
				nm := fmt.Sprintf("sk!%d!%s", g.n, sanitizeSk(b.list[0].atom))
				g.sks = append(g.sks, skolem{nm, b.list[1].String()})
				m[b.list[0].atom] = sxAtom(nm)
			}
			return g.skolemize(stripBang(x.list[2]).subst(m), pos)
		}
		return x
	case "=>":
		n := &sx{isL: true, list: make([]*sx, len(x.list))}
		n.list[0] = x.list[0]
		for i := 1; i < len(x.list); i++ {
			n.list[i] = g.skolemize(x.list[i], pos == (i == len(x.list)-1))
		}
		return n
	case "and", "or":
		n := &sx{isL: true, list: make([]*sx, len(x.list))}
		n.list[0] = x.list[0]
		for i := 1; i < len(x.list); i++ {
			n.list[i] = g.skolemize(x.list[i], pos)
		}
		return n
	case "not":
		if len(x.list) == 2 {
			return sxList(x.list[0], g.skolemize(x.list[1], !pos))
		}
	case "!":
		if len(x.list) >= 2 {
			return g.skolemize(x.list[1], pos)
		}
	case "ite":
		if len(x.list) == 4 {
			return sxList(x.list[0], x.list[1], g.skolemize(x.list[2], pos), g.skolemize(x.list[3], pos))
		}
	}
	return x
}

// indexTerms adds to the instantiation candidates the index terms of element accesses `(select (select E a) idx)` of
// the skolemised goal that mention a skolem constant (e.g. `(+ off sk)`): the copy axioms of append/copy and the
// element clauses of loop invariants are stated over such absolute indices (array property fragment: instantiate
// index variables with the index terms of the ground part).
// accessTerms (second round): in the instances produced by the first round, every element access at a position that
// mentions a skolem, `(select (select E a) idx)`, contributes its array reference a and its index idx as further
// candidates: hypotheses often speak about the same elements through another array (a copy made by append).
func (g *grounder) accessTerms(x *sx, nbase int) {
	if !x.isL {
		return
	}
	if x.head() == "select" && len(x.list) == 3 && x.list[1].head() == "select" && len(x.list[1].list) == 3 {
		idx := x.list[2].String()
		mentions := false
		for _, sk := range g.sks[:nbase] {
			if strings.Contains(idx, sk.name) {
				mentions = true
				break
			}
		}
		if mentions {
			ref := x.list[1].list[2].String()
			dup := false
			for _, r := range g.refs {
				if r == ref {
					dup = true
				}
			}
			if !dup && len(g.refs) < 14 && !strings.Contains(ref, "?") {
				g.refs = append(g.refs, ref)
			}
			if x.list[2].isL {
				dup = false
				for _, sk := range g.sks {
					if sk.name == idx {
						dup = true
					}
				}
				if !dup && len(g.sks) < 12 && !strings.Contains(idx, "?") {
					g.sks = append(g.sks, skolem{idx, "Int"})
				}
			}
		}
	}
	for _, c := range x.list {
		g.accessTerms(c, nbase)
	}
}

func (g *grounder) indexTerms(x *sx) {
	if !x.isL {
		return
	}
	if x.head() == "select" && len(x.list) == 3 && !x.list[1].isL {
		// (select HEAP ref): ref is an object / array reference of the goal: candidate for the reference-typed
		// variables of frame axioms (`forall r :: r != a ==> E'[r] == E[r]`)
		s := x.list[2].String()
		dup := false
		for _, r := range g.refs {
			if r == s {
				dup = true
			}
		}
		if !dup && len(g.refs) < 8 && !strings.Contains(s, "?") {
			g.refs = append(g.refs, s)
		}
	}
	if x.head() == "select" && len(x.list) == 3 && x.list[1].head() == "select" {
		idx := x.list[2]
		if idx.isL {
			s := idx.String()
			mentions := false
			for _, sk := range g.sks {
				if strings.Contains(s, sk.name) {
					mentions = true
					break
				}
			}
			add := func(t string) {
				if len(g.sks) >= 12 || t == "" || (t[0] >= '0' && t[0] <= '9') || strings.HasPrefix(t, "(- ") || strings.Contains(t, "?") {
					return // (bound variables are named x?N: a term under a binder is not a ground candidate)
				}
				for _, sk := range g.sks {
					if sk.name == t {
						return
					}
				}
				g.sks = append(g.sks, skolem{t, "Int"})
			}
			if mentions {
				add(s)
			} else if g.nskolem == 0 {
				// a goal without bound variables (an index obligation inside a loop body, say): its own positions are
				// where the element clauses of the hypotheses are needed. Clauses are written over positions relative to
				// the slice (`s[k]` is element off+k of the array), so the addends of `off + k` are candidates too.
				add(s)
				if idx.head() == "+" {
					for _, c := range idx.list[1:] {
						add(c.String())
					}
				}
			}
		}
	}
	for _, c := range x.list {
		g.indexTerms(c)
	}
}

func sanitizeSk(s string) string {
	var sb strings.Builder
	for _, c := range s {
		if (c >= 'a' && c <= 'z') || (c >= 'A' && c <= 'Z') || (c >= '0' && c <= '9') || c == '_' {
			sb.WriteRune(c)
		}
	}
	return sb.String()
}

// instantiate rewrites an asserted fact: every forall at positive polarity becomes the conjunction of its instances at
// the skolem constants of matching sort (true when there is none). ok=false when a positive quantifier remains that
// cannot be treated this way (the fact is then dropped).
func (g *grounder) instantiate(x *sx, pos bool, budget *int) (*sx, bool) {
	if !x.isL {
		return x, true
	}
	switch h := x.head(); h {
	case "forall", "exists":
		if len(x.list) != 3 || !x.list[1].isL {
			return x, false
		}
		if (h == "forall") != pos {
			// existential in this position: harmless for the solver as long as nothing universal hides below
			if stripBang(x.list[2]).hasQuant() {
				return x, false
			}
			return x, true
		}
		binders := x.list[1].list
		body := stripBang(x.list[2])
		// all tuples of skolems with matching sorts
		var tuples []map[string]*sx
		tuples = append(tuples, map[string]*sx{})
		for _, b := range binders {
			if !b.isL || len(b.list) != 2 {
				return x, false
			}
			srt := b.list[1].String()
			cands := g.sks
			if srt == "Int" && usedAsRef(body, b.list[0].atom) {
				cands = nil
				for _, r := range g.refs {
					cands = append(cands, skolem{r, "Int"})
				}
			}
			var next []map[string]*sx
			for _, t := range tuples {
				for _, sk := range cands {
					if sk.sort != srt {
						continue
					}
					cp := map[string]*sx{}
					for k, v := range t {
						cp[k] = v
					}
					cp[b.list[0].atom] = sxAtom(sk.name)
					next = append(next, cp)
				}
			}
			tuples = next
			if len(tuples) > 160 {
				return x, false
			}
		}
		neutral := "true"
		conn := "and"
		if h == "exists" { // exists at negative polarity handled above; not reached
			neutral, conn = "false", "or"
		}
		if len(tuples) == 0 {
			return sxAtom(neutral), true
		}
		parts := []*sx{sxAtom(conn)}
		for _, t := range tuples {
			*budget--
			if *budget < 0 {
				return x, false
			}
			inst, ok := g.instantiate(body.subst(t), pos, budget)
			if !ok {
				return x, false
			}
			parts = append(parts, inst)
		}
		if len(parts) == 2 {
			return parts[1], true
		}
		return sxList(parts...), true
	case "=>":
		n := &sx{isL: true, list: make([]*sx, len(x.list))}
		n.list[0] = x.list[0]
		for i := 1; i < len(x.list); i++ {
			c, ok := g.instantiate(x.list[i], pos == (i == len(x.list)-1), budget)
			if !ok {
				return x, false
			}
			n.list[i] = c
		}
		return n, true
	case "and", "or":
		n := &sx{isL: true, list: make([]*sx, len(x.list))}
		n.list[0] = x.list[0]
		for i := 1; i < len(x.list); i++ {
			c, ok := g.instantiate(x.list[i], pos, budget)
			if !ok {
				return x, false
			}
			n.list[i] = c
		}
		return n, true
	case "not":
		if len(x.list) == 2 {
			c, ok := g.instantiate(x.list[1], !pos, budget)
			if !ok {
				return x, false
			}
			return sxList(x.list[0], c), true
		}
	case "!":
		if len(x.list) >= 2 {
			return g.instantiate(x.list[1], pos, budget)
		}
	case "ite":
		if len(x.list) == 4 && !x.list[1].hasQuant() {
			a, ok1 := g.instantiate(x.list[2], pos, budget)
			b, ok2 := g.instantiate(x.list[3], pos, budget)
			if !ok1 || !ok2 {
				return x, false
			}
			return sxList(x.list[0], x.list[1], a, b), true
		}
	}
	if x.hasQuant() {
		// quantifier under an operator whose polarity we do not track (=, ite condition, ...)
		return x, false
	}
	return x, true
}

// groundQuery transforms a complete query (as produced by buildQuery for a non-smoke obligation: declarations and
// facts, then `(assert (not F))`, `(check-sat)` and an optional `(get-value ...)`). ok=false: nothing to gain (no
// quantifier anywhere) or the text could not be parsed.
func groundQuery(q string) (string, bool) {
	if !strings.Contains(q, "(forall ") && !strings.Contains(q, "(exists ") {
		return "", false
	}
	cmds := splitCommands(q)
	// the goal is the last assert before check-sat
	gi := -1
	for i, c := range cmds {
		if strings.HasPrefix(c, "(check-sat") {
			break
		}
		if strings.HasPrefix(c, "(assert ") {
			gi = i
		}
	}
	if gi < 0 {
		return "", false
	}
	gx, _, err := parseSx(cmds[gi])
	if err != nil || !gx.isL || len(gx.list) != 2 || gx.list[1].head() != "not" || len(gx.list[1].list) != 2 {
		return "", false
	}
	g := &grounder{}
	goal := g.skolemize(gx.list[1].list[1], true)
	nsk := len(g.sks)
	g.nskolem = nsk
	g.indexTerms(goal)
	// parse the quantified facts once
	quant := map[int]*sx{}
	for i, c := range cmds {
		if i >= gi {
			break
		}
		if strings.HasPrefix(c, "(assert ") && (strings.Contains(c, "(forall ") || strings.Contains(c, "(exists ")) {
			if x, _, err := parseSx(c); err == nil && x.isL && len(x.list) == 2 {
				quant[i] = x.list[1]
			}
		}
	}
	if g.nskolem == 0 {
		// a goal without bound variables of its own: the positions that matter are those the ground facts of the
		// path mention (the current index of a range loop, ...)
		n := 0
		for i := 0; i < gi && n < 400; i++ {
			c := cmds[i]
			if !strings.HasPrefix(c, "(assert ") || strings.Contains(c, "(forall ") || strings.Contains(c, "(exists ") || !strings.Contains(c, "(select (select ") {
				continue
			}
			if x, _, err := parseSx(c); err == nil {
				g.indexTerms(x)
				n++
			}
		}
	}
	// round 1 (candidates from the goal) only serves to find the further arrays / positions the hypotheses mention
	{
		nbase := len(g.sks)
		b1 := 4000
		for i := 0; i < gi; i++ {
			if x, ok := quant[i]; ok {
				if inst, ok := g.instantiate(x, true, &b1); ok {
					g.accessTerms(inst, nbase)
				}
			}
		}
	}
	var sb, late strings.Builder
	budget := 12000
	for i, c := range cmds {
		if i == gi {
			// the instantiated hypotheses use the skolem constants and index terms of the goal, whose symbols may be
			// declared anywhere before the goal: they all go here, after every declaration
			for _, sk := range g.sks[:nsk] {
				fmt.Fprintf(&sb, "(declare-const %s %s)\n", sk.name, sk.sort)
			}
			sb.WriteString(late.String())
			// universal facts inside the goal itself (a quantified antecedent of an implication that is to be proved)
			// are hypotheses of the negated goal: instantiate them like the others
			ngoal := sxList(sxAtom("not"), goal)
			if goal.hasQuant() {
				if inst, ok := g.instantiate(ngoal, true, &budget); ok {
					ngoal = inst
				}
			}
			sb.WriteString("(assert " + ngoal.String() + ")\n")
			continue
		}
		if strings.HasPrefix(c, "(get-value") || strings.HasPrefix(c, "(get-model") {
			continue
		}
		if !strings.HasPrefix(c, "(assert ") || (!strings.Contains(c, "(forall ") && !strings.Contains(c, "(exists ")) {
			sb.WriteString(c)
			sb.WriteByte('\n')
			continue
		}
		x, okq := quant[i]
		if !okq {
			continue // unparsable: dropped
		}
		inst, ok := g.instantiate(x, true, &budget)
		if !ok {
			continue // a positive quantifier we cannot instantiate: drop the fact (sound)
		}
		if !inst.isL && inst.atom == "true" {
			continue
		}
		late.WriteString("(assert " + inst.String() + ")\n")
	}
	return sb.String(), true
}
