package main

import (
	"fmt"
	"go/types"
	"sort"
	"strings"

	"golang.org/x/tools/go/ssa"
)

// verifyFunc generates the fact log and obligations for one function under contract.
func (e *Engine) verifyFunc(fn *ssa.Function, fs *FuncSpec) (c *vctx) {
	c = newVctx(calleeName(fn))
	e.cur = c
	c.ieee = fs.IEEE
	defer func() {
		if r := recover(); r != nil {
			c.anchorErrs = append(c.anchorErrs, fmt.Sprintf("%s: generator panic: %v", c.fn, r))
			if debugPanic {
				panic(r)
			}
		}
	}()
	e.ensureBuilt(fn)
	if len(fn.Blocks) == 0 {
		c.anchorErrs = append(c.anchorErrs, c.fn+": no body")
		return c
	}
	a := e.newAct(fn, nil)
	if a.spec == nil {
		// package sweep: the function has no contract of its own; the synthetic spec carries the sweep kinds
		a.spec = fs
	}
	c.topAct = a
	log := c.log
	st := &State{locals: map[any]Val{}, heap: map[string]Term{}, epoch: "0"}
	st.alloc = log.declConst("alloc@0", SInt)
	log.assert(app(SBool, ">=", st.alloc, intLit(1)))
	args := make([]Val, len(fn.Params))
	for i, p := range fn.Params {
		v := e.freshVal("in."+p.Name(), p.Type(), st)
		args[i] = v
		for _, t := range v.T {
			if t.Sort == SInt || t.Sort == SReal || t.Sort == SBool {
				c.inputs = append(c.inputs, t.S)
			}
		}
		a.vals[p] = v
	}
	for i, fv := range fn.FreeVars {
		// closures verified on their own: captured variables are arbitrary cells
		v := e.freshVal("fv."+fv.Name(), fv.Type(), st)
		a.freeVars = append(a.freeVars, v)
		_ = i
	}
	st.epochBound = st.alloc
	a.entry = st.clone()
	env := a.entryEnv(st)
	lets := map[string]Val{}
	for _, l := range fs.Lets {
		v, err := env.eval(l.C.E)
		if err != nil {
			a.specError(l.C, err)
			continue
		}
		env.vars[l.Name] = v
		lets[l.Name] = v
		if a.lets == nil {
			a.lets = map[string]Val{}
		}
		a.lets[l.Name] = v
	}
	for _, cl := range fs.Requires {
		t, err := env.evalBool(cl.E)
		if err != nil {
			a.specError(cl, err)
			continue
		}
		log.assert(t)
	}
	if !fs.NoFrame {
		c.frame = e.frameTargets(a, fs, env)
	}
	exitSt, results, exitReach := a.run(args, st, tTrue)
	a.curBlock = nil
	a.checkCallAnchors()
	if exitSt == nil {
		// function never returns normally: ensures are vacuous; say so
		c.abstracted("function has no reachable return")
		return c
	}
	// smoke: the exit must be reachable under the preconditions
	sm := &Obligation{Name: c.fn + "/smoke:exit-reachable", Kind: "smoke", Formula: exitReach, Fn: c.fn, Smoke: true}
	if exitReach.S == "true" {
		sm.Formula = tTrue
	}
	if !fs.Cheap { // package-sweep functions have no preconditions that could be contradictory
		log.addOblig(sm)
		c.obligations = append(c.obligations, sm)
	}

	env2 := a.entryEnv(exitSt)
	env2.old = a.entry
	env2.results = results
	for k, v := range lets {
		env2.vars[k] = v
	}
	res := fn.Signature.Results()
	for i := 0; i < res.Len(); i++ {
		if n := res.At(i).Name(); n != "" && n != "_" && i < len(results) {
			env2.vars[n] = results[i]
		}
	}
	env2.applyGhostSets(fs, exitSt)
	pos := fn.Pos()
	for _, cl := range fs.Ensures {
		if len(cl.Props) > 0 && e.curProp != "" && !hasProp(cl.Props, e.curProp) {
			continue // clause belongs to other properties
		}
		t, err := env2.evalBool(cl.E)
		if err != nil {
			a.specError(cl, err)
			continue
		}
		a.obligation("ensures", cl.Label, pos, exitReach, t)
	}
	if !fs.NoFrame {
		e.frameObligations(a, c.frame, exitSt, exitReach)
	}
	return c
}

// verifyLemma: a lemma is a quantifier-free obligation over fresh parameters: requires ==> ensures, where calls
// to pure functions under contract are instantiated with their contracts.
func (e *Engine) verifyLemma(lem *LemmaSpec) (c *vctx) {
	c = newVctx("lemma." + lem.Name)
	e.cur = c
	defer func() {
		if r := recover(); r != nil {
			c.anchorErrs = append(c.anchorErrs, fmt.Sprintf("%s: generator panic: %v", c.fn, r))
			if debugPanic {
				panic(r)
			}
		}
	}()
	a := &act{e: e, vals: map[ssa.Value]Val{}, outs: map[*ssa.BasicBlock]*blockOut{}, top: true, name: c.fn}
	c.topAct = a
	st := &State{locals: map[any]Val{}, heap: map[string]Term{}, epoch: "0"}
	st.alloc = c.log.declConst("alloc@0", SInt)
	c.log.assert(app(SBool, ">=", st.alloc, intLit(1)))
	st.epochBound = st.alloc
	a.entry = st.clone()
	env := e.newEnv(a, st)
	env.pkg = e.spkg[lem.Pkg]
	env.vars = map[string]Val{}
	for _, p := range lem.Params {
		t, err := env.parseType(p.Type)
		if err != nil {
			c.anchorErrs = append(c.anchorErrs, fmt.Sprintf("lemma %s: %v", lem.Name, err))
			return c
		}
		v := e.freshVal("in."+p.Name, t, st)
		env.vars[p.Name] = v
		for _, tm := range v.T {
			if tm.Sort == SInt || tm.Sort == SReal || tm.Sort == SBool {
				c.inputs = append(c.inputs, tm.S)
			}
		}
	}
	for _, cl := range lem.Requires {
		t, err := env.evalBool(cl.E)
		if err != nil {
			a.specError(cl, err)
			continue
		}
		c.log.assert(t)
	}
	sm := &Obligation{Name: c.fn + "/smoke:hypotheses-satisfiable", Kind: "smoke", Formula: tTrue, Fn: c.fn, Smoke: true}
	c.log.addOblig(sm)
	c.obligations = append(c.obligations, sm)
	for _, cl := range lem.Ensures {
		t, err := env.evalBool(cl.E)
		if err != nil {
			a.specError(cl, err)
			continue
		}
		a.obligation("lemma", cl.Label, 0, tTrue, t)
	}
	return c
}

var debugPanic = false

type frameInfo struct {
	entry    *State
	targets  map[string][]Term // heap family -> refs that may change
	wild     map[string]bool
	anything bool
}

// frameTargets evaluates the modifies clauses at function entry.
func (e *Engine) frameTargets(a *act, fs *FuncSpec, entryEnv *specEnv) *frameInfo {
	fr := &frameInfo{entry: a.entry, targets: map[string][]Term{}, wild: map[string]bool{}}
	ghostTarget := func(cl *Clause) bool {
		x := cl.E
		if x.Op == "ident" && x.Name == "ghosts" {
			for name, sf := range e.specFuncs {
				if sf.Ghost && sf.Pkg == "" {
					fr.wild["G_"+name] = true
				}
			}
			return true
		}
		if x.Op == "call" && x.Args[0].Op == "ident" && len(x.Args) == 2 {
			if sf, ok := e.specFuncs[x.Args[0].Name]; ok && sf.Ghost {
				v, err := entryEnv.eval(x.Args[1])
				if err != nil {
					a.specError(cl, err)
					return true
				}
				if k, ok := ghostKey(v); ok {
					fr.targets["G_"+sf.Name] = append(fr.targets["G_"+sf.Name], k)
				}
				return true
			}
		}
		return false
	}
	for _, gs := range fs.GhostSets {
		ghostTarget(gs.Target)
	}
	for _, cl := range fs.Modifies {
		x := cl.E
		if x.Op == "ident" && x.Name == "anything" {
			fr.anything = true
			continue
		}
		if ghostTarget(cl) {
			continue
		}
		if x.Op == "call" && x.Args[0].Op == "ident" && x.Args[0].Name == "all" {
			for _, arg := range x.Args[1:] {
				for _, h := range entryEnv.readsHeaps(arg.String()) {
					fr.wild[h] = true
				}
			}
			continue
		}
		if x.Op == "call" && x.Args[0].Op == "ident" && x.Args[0].Name == "entries" && len(x.Args) == 2 {
			v, err := entryEnv.eval(x.Args[1])
			if err != nil {
				a.specError(cl, err)
				continue
			}
			if mt, ok := v.Typ.Underlying().(*types.Map); ok && v.T != nil {
				if mh := e.mapHeaps(mt); mh != nil {
					fr.targets[mh.dom] = append(fr.targets[mh.dom], v.T[0])
					for _, n := range mh.val {
						fr.targets[n] = append(fr.targets[n], v.T[0])
					}
				}
			}
			continue
		}
		if x.Op == "call" && x.Args[0].Op == "ident" && x.Args[0].Name == "elems" {
			v, err := entryEnv.eval(x.Args[1])
			if err != nil {
				a.specError(cl, err)
				continue
			}
			if sl, ok := v.Typ.Underlying().(*types.Slice); ok && v.T != nil {
				for _, l := range e.layout(sl.Elem()) {
					n := elemHeapName(sl.Elem(), l.Path)
					fr.targets[n] = append(fr.targets[n], v.T[0])
				}
			}
			continue
		}
		lp, _, err := entryEnv.evalLoc(x)
		if err != nil {
			a.specError(cl, err)
			continue
		}
		switch lp.Kind {
		case pkHeap:
			off, n, _ := e.sub(lp.BaseType, lp.Path)
			ls := e.layout(lp.BaseType)
			for i := 0; i < n; i++ {
				name := objHeapName(lp.BaseType, ls[off+i].Path)
				fr.targets[name] = append(fr.targets[name], lp.Base)
			}
		case pkElem:
			for _, l := range e.layout(lp.BaseType) {
				name := elemHeapName(lp.BaseType, l.Path)
				fr.targets[name] = append(fr.targets[name], lp.Base)
			}
		}
	}
	return fr
}

// frameObligations: every heap family changed by the function is unchanged outside the modifies targets for all
// references that were allocated at entry.
func (e *Engine) frameObligations(a *act, fr *frameInfo, exit *State, reach Term) {
	c := e.cur
	if fr == nil || fr.anything {
		return
	}
	var names []string
	for h := range exit.heap {
		names = append(names, h)
	}
	sort.Strings(names)
	for _, h := range names {
		if fr.wild[h] {
			continue
		}
		if strings.HasPrefix(h, "G_") && !e.moduleGhost(strings.TrimPrefix(h, "G_")) {
			continue // ghost families of library objects describe their abstract state, not program memory
		}
		srt := c.heapSorts[h]
		h0 := e.heapGet(a.entry, h, srt)
		h1 := exit.heap[h]
		if h0.S == h1.S {
			continue
		}
		// frame obligations exist only for the heap families the current body writes, so their names follow the
		// code, not the contract: they are never named in the ledger, but a failing one is always reported (a write
		// outside the contract's modifies clause is a violation of that clause)
		a.obligationX("frame", strings.TrimPrefix(h, "H_"), a.fn.Pos(), reach, frameFormula(h0, h1, a.entry.alloc, fr.targets[h]), true)
	}
}
