package main

import (
	"fmt"
	"go/ast"
	"go/token"
	"go/types"
	"os"
	"path/filepath"
	"sort"
	"strings"

	"golang.org/x/tools/go/packages"
	"golang.org/x/tools/go/ssa"
	"golang.org/x/tools/go/ssa/ssautil"
)

const modPath = "oss.terrastruct.com/d2"

type Engine struct {
	fset      *token.FileSet
	prog      *ssa.Program
	pkgs      map[string]*packages.Package
	spkg      map[string]*ssa.Package
	layouts   map[string][]Leaf
	funcSpecs map[*ssa.Function]*FuncSpec
	specByKey map[string]*FuncSpec // "<pkgpath>.<Name>"
	externs   map[string]*ExternSpec
	privCache map[*ssa.Function]*privInfo
	ctorCache map[*ssa.Function]bool

	sealedCache map[string][]types.Type
	specFuncs map[string]*SpecFunc
	lemmas    []*LemmaSpec
	files     []*ContractFile
	typeTags  map[string]int
	tagTypes  []types.Type
	srcCache  map[string][]byte
	cur       *vctx
	loadErrs  []string
	constGlobals map[*ssa.Global]*Val
	overlay      map[string][]byte
	curProp      string
}

// vctx: everything produced while verifying one function
type vctx struct {
	fn           string
	log          *Log
	obligations  []*Obligation
	lits         map[string]Term
	litOrder     []string
	heapSorts    map[string]Sort
	discovery    int
	abstractions map[string]int
	opaqueCalls  map[string]int
	externsUsed  map[string]bool
	trustedUsed  map[string]bool
	inlined      map[string]int
	strPredLits  map[string]map[string]bool
	inputs       []string
	obNames      map[string]int
	viaReach     map[string][]viaRec // top activation: call site label -> where and under which path condition it is executed
	ufs          map[string]bool
	anchorErrs   []string
	ieee         bool
	topAct       *act
	hvers        map[string]Term
	frame        *frameInfo
	drift        []string
}

func (c *vctx) abstracted(what string) {
	if c.discovery > 0 {
		return
	}
	c.abstractions[what]++
}

func newVctx(fn string) *vctx {
	return &vctx{fn: fn, log: newLog(), lits: map[string]Term{}, heapSorts: map[string]Sort{}, abstractions: map[string]int{},
		opaqueCalls: map[string]int{}, externsUsed: map[string]bool{}, trustedUsed: map[string]bool{}, inlined: map[string]int{},
		strPredLits: map[string]map[string]bool{}, obNames: map[string]int{}, viaReach: map[string][]viaRec{}, ufs: map[string]bool{}}
}

func loadEngine(repo string, patterns []string, overlay map[string][]byte) (*Engine, error) {
	cfg := &packages.Config{
		Mode:       packages.LoadAllSyntax,
		Dir:        repo,
		BuildFlags: []string{"-tags=verif"},
		Env:        append(os.Environ(), "GOFLAGS=-mod=mod", "GOPROXY=off", "GOSUMDB=off", "GOTOOLCHAIN=local", "PATH=/opt/veriftools/go1.26.8/bin:"+os.Getenv("PATH")),
		Overlay:    overlay,
	}
	pkgs, err := packages.Load(cfg, patterns...)
	if err != nil {
		return nil, err
	}
	e := &Engine{pkgs: map[string]*packages.Package{}, spkg: map[string]*ssa.Package{}, layouts: map[string][]Leaf{},
		funcSpecs: map[*ssa.Function]*FuncSpec{}, specByKey: map[string]*FuncSpec{}, externs: map[string]*ExternSpec{},
		specFuncs: map[string]*SpecFunc{}, typeTags: map[string]int{}, srcCache: map[string][]byte{}, overlay: overlay}
	packages.Visit(pkgs, nil, func(p *packages.Package) {
		e.pkgs[p.PkgPath] = p
		if strings.HasPrefix(p.PkgPath, modPath) {
			for _, er := range p.Errors {
				e.loadErrs = append(e.loadErrs, er.Error())
			}
		}
	})
	if len(pkgs) > 0 {
		e.fset = pkgs[0].Fset
	}
	prog, _ := ssautil.AllPackages(pkgs, ssa.NaiveForm|ssa.InstantiateGenerics)
	e.prog = prog
	for _, sp := range prog.AllPackages() {
		e.spkg[sp.Pkg.Path()] = sp
		if strings.HasPrefix(sp.Pkg.Path(), modPath) {
			sp.Build()
		}
	}
	return e, nil
}

func (e *Engine) ensureBuilt(fn *ssa.Function) {
	if fn.Pkg != nil {
		fn.Pkg.Build()
	}
}

// loadContracts reads every zz_verif_contracts.go of the loaded module packages plus extern files.
func (e *Engine) loadContracts(repo string, externFiles []string) error {
	var paths []string
	for p := range e.pkgs {
		if strings.HasPrefix(p, modPath) {
			paths = append(paths, p)
		}
	}
	sort.Strings(paths)
	for _, p := range paths {
		rel := strings.TrimPrefix(strings.TrimPrefix(p, modPath), "/")
		f := filepath.Join(repo, rel, "zz_verif_contracts.go")
		if _, err := os.Stat(f); err != nil {
			continue
		}
		cf, err := parseContractFile(f, p)
		if err != nil {
			return err
		}
		e.addContractFile(cf)
	}
	for _, f := range externFiles {
		cf, err := parseContractFile(f, "")
		if err != nil {
			return err
		}
		e.addContractFile(cf)
	}
	return nil
}

func (e *Engine) addContractFile(cf *ContractFile) {
	e.files = append(e.files, cf)
	for _, fs := range cf.Funcs {
		e.specByKey[fs.Pkg+"."+fs.Name] = fs
	}
	for _, sf := range cf.Specs {
		e.specFuncs[sf.Name] = sf
	}
	for _, x := range cf.Externs {
		e.externs[x.Name] = x
	}
	e.lemmas = append(e.lemmas, cf.Lemmas...)
}

// bindSpecs resolves each FuncSpec to its ssa.Function.
func (e *Engine) bindSpecs() []string {
	var errs []string
	for key, fs := range e.specByKey {
		fn := e.findFunc(fs.Pkg, fs.Name)
		if fn == nil {
			errs = append(errs, fmt.Sprintf("%s:%d: function %s not found in %s", fs.File, fs.Line, fs.Name, fs.Pkg))
			continue
		}
		_ = key
		e.funcSpecs[fn] = fs
	}
	sort.Strings(errs)
	return errs
}

// findFunc: "Func", "Type.Method", "Func$1", "Type.Method$2"
func (e *Engine) findFunc(pkgPath, name string) *ssa.Function {
	sp := e.spkg[pkgPath]
	if sp == nil {
		return nil
	}
	base := name
	var anon []string
	if i := strings.Index(name, "$"); i >= 0 {
		base = name[:i]
		anon = strings.Split(name[i+1:], "$")
	}
	var fn *ssa.Function
	if j := strings.Index(base, "."); j >= 0 {
		tn, mn := base[:j], base[j+1:]
		obj := sp.Pkg.Scope().Lookup(tn)
		if obj == nil {
			return nil
		}
		named, ok := obj.Type().(*types.Named)
		if !ok {
			return nil
		}
		for _, T := range []types.Type{named, types.NewPointer(named)} {
			ms := e.prog.MethodSets.MethodSet(T)
			for i := 0; i < ms.Len(); i++ {
				sel := ms.At(i)
				if sel.Obj().Name() == mn && sel.Obj().Pkg() == sp.Pkg {
					// only methods declared directly on this type (not promoted)
					if len(sel.Index()) == 1 {
						fn = e.prog.MethodValue(sel)
					}
				}
			}
			if fn != nil {
				break
			}
		}
		// MethodValue for pointer receiver of value method yields wrapper; unwrap to declared
		if fn != nil && fn.Synthetic != "" {
			if o, ok := fn.Object().(*types.Func); ok {
				if d := e.prog.FuncValue(o); d != nil {
					fn = d
				}
			}
		}
	} else {
		fn = sp.Func(base)
	}
	if fn == nil {
		return nil
	}
	e.ensureBuilt(fn)
	for _, a := range anon {
		var idx int
		fmt.Sscanf(a, "%d", &idx)
		if idx < 1 || idx > len(fn.AnonFuncs) {
			return nil
		}
		fn = fn.AnonFuncs[idx-1]
	}
	return fn
}

// display name used for specs, anchors and obligation names: pkgname.Func / pkgname.Type.Method
func calleeName(fn *ssa.Function) string {
	if fn == nil {
		return "?"
	}
	if fn.Parent() != nil {
		// anonymous function: parent$k
		p := fn.Parent()
		for i, a := range p.AnonFuncs {
			if a == fn {
				return fmt.Sprintf("%s$%d", calleeName(p), i+1)
			}
		}
	}
	pkg := ""
	if fn.Pkg != nil {
		pkg = fn.Pkg.Pkg.Name()
	} else if o := fn.Object(); o != nil && o.Pkg() != nil {
		pkg = o.Pkg().Name()
	}
	name := fn.Name()
	if recv := fn.Signature.Recv(); recv != nil {
		t := recv.Type()
		if p, ok := t.(*types.Pointer); ok {
			t = p.Elem()
		}
		if n, ok := t.(*types.Named); ok {
			if pkg == "" && n.Obj().Pkg() != nil {
				pkg = n.Obj().Pkg().Name()
			}
			return pkg + "." + n.Obj().Name() + "." + name
		}
	}
	if orig := fn.Origin(); orig != nil && orig != fn {
		name = orig.Name()
	}
	return pkg + "." + name
}

func (e *Engine) specKeyOf(fn *ssa.Function) string {
	if fn.Pkg == nil {
		return ""
	}
	n := calleeName(fn)
	// strip package name prefix
	if i := strings.Index(n, "."); i >= 0 {
		n = n[i+1:]
	}
	return fn.Pkg.Pkg.Path() + "." + n
}

func (e *Engine) specOf(fn *ssa.Function) *FuncSpec {
	if fs, ok := e.funcSpecs[fn]; ok {
		return fs
	}
	if o := fn.Origin(); o != nil {
		if fs, ok := e.funcSpecs[o]; ok {
			return fs
		}
	}
	return nil
}

func (e *Engine) src(file string) []byte {
	if b, ok := e.srcCache[file]; ok {
		return b
	}
	if ob, ok := e.overlay[file]; ok {
		e.srcCache[file] = ob
		return ob
	}
	b, _ := os.ReadFile(file)
	e.srcCache[file] = b
	return b
}

func (e *Engine) srcText(from, to token.Pos) string {
	p1, p2 := e.fset.Position(from), e.fset.Position(to)
	b := e.src(p1.Filename)
	if p1.Offset < 0 || p2.Offset > len(b) || p1.Offset > p2.Offset {
		return ""
	}
	return string(b[p1.Offset:p2.Offset])
}

// astLoops lists the loop statements of a function body in source order (not descending into FuncLits).
func astLoops(body ast.Node) []ast.Stmt {
	var out []ast.Stmt
	if body == nil {
		return nil
	}
	var walk func(n ast.Node) bool
	first := true
	walk = func(n ast.Node) bool {
		switch x := n.(type) {
		case *ast.FuncLit:
			if first {
				first = false
				return true
			}
			return false
		case *ast.ForStmt:
			out = append(out, x)
		case *ast.RangeStmt:
			out = append(out, x)
		}
		first = false
		return true
	}
	ast.Inspect(body, walk)
	return out
}

func (e *Engine) loopHeader(s ast.Stmt) string {
	switch x := s.(type) {
	case *ast.ForStmt:
		return normalizeSrc(e.srcText(x.Pos(), x.Body.Lbrace))
	case *ast.RangeStmt:
		return normalizeSrc(e.srcText(x.Pos(), x.Body.Lbrace))
	}
	return ""
}

// sealedImplementors: for an interface type with an unexported method, the types that can implement it are those of
// the method's own package (no other package can declare that method): their list, or nil when the interface is open.
func (e *Engine) sealedImplementors(t types.Type) []types.Type {
	it, ok := t.Underlying().(*types.Interface)
	if !ok || it.NumMethods() == 0 {
		return nil
	}
	k := typeKey(t)
	if e.sealedCache == nil {
		e.sealedCache = map[string][]types.Type{}
	}
	if v, ok := e.sealedCache[k]; ok {
		return v
	}
	var pkg *types.Package
	for i := 0; i < it.NumMethods(); i++ {
		m := it.Method(i)
		if !m.Exported() && m.Pkg() != nil {
			pkg = m.Pkg()
			break
		}
	}
	var out []types.Type
	if pkg != nil {
		names := pkg.Scope().Names()
		sort.Strings(names)
		for _, n := range names {
			tn, ok := pkg.Scope().Lookup(n).(*types.TypeName)
			if !ok || tn.IsAlias() {
				continue
			}
			nt := tn.Type()
			if _, isIface := nt.Underlying().(*types.Interface); isIface {
				continue
			}
			if types.Implements(nt, it) {
				out = append(out, nt)
			}
			if pt := types.NewPointer(nt); types.Implements(pt, it) {
				out = append(out, pt)
			}
		}
		if out == nil {
			out = []types.Type{}
		}
	}
	e.sealedCache[k] = out
	return out
}

func (e *Engine) typeTag(t types.Type) int {
	k := typeKey(t)
	if n, ok := e.typeTags[k]; ok {
		return n
	}
	n := len(e.typeTags) + 1
	e.typeTags[k] = n
	e.tagTypes = append(e.tagTypes, t)
	return n
}

func (e *Engine) pos(p token.Pos) string {
	if !p.IsValid() {
		return ""
	}
	ps := e.fset.Position(p)
	return fmt.Sprintf("%s:%d", strings.TrimPrefix(ps.Filename, "/repo/"), ps.Line)
}
