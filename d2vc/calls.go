package main

import (
	"fmt"
	"go/token"
	"go/types"
	"strings"

	"golang.org/x/tools/go/ssa"
)

func (a *act) call(x *ssa.Call, st *State, reach Term) (Val, *State) {
	c := x.Common()
	fnVal := a.val(c.Value, st)
	args := make([]Val, len(c.Args))
	for i, arg := range c.Args {
		args[i] = a.val(arg, st)
	}
	return a.callValue(x, c, fnVal, args, st, reach)
}

func (a *act) callValue(site ssa.CallInstruction, c *ssa.CallCommon, fnVal Val, args []Val, st *State, reach Term) (Val, *State) {
	e := a.e
	cs := a.sites[site]
	resT := c.Signature().Results()
	var rtyp types.Type = resT
	if resT.Len() == 1 {
		rtyp = resT.At(0).Type()
	}
	// call-site assertions
	a.siteAsserts(site, cs, args, st, reach)
	if a.caller == nil && e.cur.discovery == 0 {
		k := fmt.Sprintf("%s#%d", cs.name, cs.ord)
		e.cur.viaReach[k] = append(e.cur.viaReach[k], viaRec{site.Block(), reach})
	}

	if c.IsInvoke() && len(fnVal.T) >= 1 {
		// a method call on a nil interface value panics (an obligation under `sweep nil-deref`, assumed otherwise)
		a.safety("nil-deref", a.exprText(c.Value)+"."+c.Method.Name()+"()", site.Pos(), reach, app(SBool, "distinct", fnVal.T[0], intLit(0)))
	}
	if c.IsInvoke() {
		// statically known dynamic type?
		if b, ok := fnVal.Ext.(*Boxed); ok && b != nil {
			if fn := e.lookupMethod(b.V.Typ, c.Method); fn != nil {
				return a.invoke(fn, nil, append([]Val{b.V}, args...), site, cs, rtyp, st, reach)
			}
		}
		// contract on the interface method
		if xs := e.externs[cs.name]; xs != nil {
			return a.applyExtern(xs, c.Signature(), append([]Val{fnVal}, args...), cs, rtyp, site.Pos(), st, reach)
		}
		// interface of a side-effect-free library package (context.Context, slog.Handler, ...)
		if n, ok := c.Value.Type().(*types.Named); ok && n.Obj().Pkg() != nil && pureLibPkgs[n.Obj().Pkg().Path()] {
			e.cur.externsUsed["pure-library:"+cs.name] = true
			return a.pureUF(cs.name, append([]Val{fnVal}, args...), rtyp, st), nil
		}
		return a.opaque(cs.name, append([]Val{fnVal}, args...), rtyp, st, true), nil
	}
	switch v := c.Value.(type) {
	case *ssa.Builtin:
		return a.builtin(v, site, args, rtyp, st, reach)
	case *ssa.Function:
		return a.invoke(v, nil, args, site, cs, rtyp, st, reach)
	}
	if cl, ok := fnVal.Ext.(*Closure); ok && cl != nil {
		return a.invoke(cl.Fn, cl.Bindings, args, site, cs, rtyp, st, reach)
	}
	return a.opaque("dynamic call", args, rtyp, st, true), nil
}

func (e *Engine) lookupMethod(t types.Type, m *types.Func) *ssa.Function {
	ms := e.prog.MethodSets.MethodSet(t)
	sel := ms.Lookup(m.Pkg(), m.Name())
	if sel == nil {
		return nil
	}
	return e.prog.MethodValue(sel)
}

func (a *act) siteAsserts(site ssa.CallInstruction, cs callSite, args []Val, st *State, reach Term) {
	top := a
	if top.spec == nil {
		return
	}
	for _, csp := range top.spec.Calls {
		if csp.Callee != cs.name || csp.Ordinal != cs.ord {
			continue
		}
		env := a.bodyEnv(st, site.Block())
		env.callArgs = args
		// inside a loop body: $i / $outer name the index of the current iteration of the enclosing range loops
		var inner *loopInfo
		for _, li := range a.loops {
			if li.blocks[site.Block()] && li.head != site.Block() && (inner == nil || len(li.blocks) < len(inner.blocks)) {
				inner = li
			}
		}
		if inner != nil {
			env.loop = inner
			env.inBody = true
		}
		for _, c := range csp.Asserts {
			t, err := env.evalBool(c.E)
			if err != nil {
				a.specError(c, err)
				continue
			}
			a.obligation("call-assert", fmt.Sprintf("%s#%d:%s", cs.name, cs.ord, c.Label), site.Pos(), reach, t)
		}
	}
}

// checkCallAnchors reports call anchors of the spec that matched no call site.
func (a *act) checkCallAnchors() {
	if a.spec == nil {
		return
	}
	for _, csp := range a.spec.Calls {
		found := false
		for _, cs := range a.sites {
			if cs.name == csp.Callee && cs.ord == csp.Ordinal {
				found = true
			}
		}
		if !found {
			a.e.cur.anchorErrs = append(a.e.cur.anchorErrs, fmt.Sprintf("%s/anchor:call %s#%d", a.name, csp.Callee, csp.Ordinal))
		}
	}
}

var pureLibPkgs = map[string]bool{
	"strings": true, "strconv": true, "math": true, "unicode": true, "unicode/utf8": true, "unicode/utf16": true,
	"path": true, "errors": true, "html": true, "math/bits": true, "slices": false, "sort": false,
	"path/filepath": true, "net/url": true, "regexp": true, "bytes": true, "hash/fnv": false,
	// logging / context plumbing: no effect on the program's own heap objects
	"log/slog": true, "context": true, "runtime/debug": true,
}
var pureLibFuncs = map[string]bool{
	"fmt.Sprintf": true, "fmt.Sprint": true, "fmt.Sprintln": true, "fmt.Errorf": true, "os.Getenv": true,
}

func (a *act) invoke(fn *ssa.Function, bindings []Val, args []Val, site ssa.CallInstruction, cs callSite, rtyp types.Type, st *State, reach Term) (Val, *State) {
	e := a.e
	name := calleeName(fn)
	if v, ok := a.intrinsic(name, fn, args, rtyp, st, reach, site); ok {
		return v, nil
	}
	if fs := e.specOf(fn); fs != nil {
		if fs.Inline {
			return a.inline(fn, bindings, args, rtyp, st, reach, name)
		}
		if !fs.Opaque {
			return a.applyContract(fs, fn, args, cs, rtyp, site.Pos(), st, reach)
		}
	}
	if xs := e.externs[name]; xs != nil {
		return a.applyExtern(xs, fn.Signature, args, cs, rtyp, site.Pos(), st, reach)
	}
	if fn.Pkg != nil {
		p := fn.Pkg.Pkg.Path()
		if pureLibPkgs[p] || pureLibFuncs[name] {
			e.cur.externsUsed["pure-library:"+name] = true
			return a.pureUF(name, args, rtyp, st), nil
		}
	} else if pureLibFuncs[name] {
		e.cur.externsUsed["pure-library:"+name] = true
		return a.pureUF(name, args, rtyp, st), nil
	}
	if a.canAutoInline(fn) {
		return a.inline(fn, bindings, args, rtyp, st, reach, name)
	}
	return a.opaque(name, args, rtyp, st, true), nil
}

func (a *act) canAutoInline(fn *ssa.Function) bool {
	if fn.Pkg == nil && fn.Parent() == nil {
		// instantiated generic or wrapper
		if fn.Origin() == nil && fn.Synthetic == "" {
			return false
		}
	}
	pkgPath := ""
	if fn.Pkg != nil {
		pkgPath = fn.Pkg.Pkg.Path()
	} else if o := fn.Origin(); o != nil && o.Pkg != nil {
		pkgPath = o.Pkg.Pkg.Path()
	} else if p := fn.Parent(); p != nil && p.Pkg != nil {
		pkgPath = p.Pkg.Pkg.Path()
	}
	if !strings.HasPrefix(pkgPath, "oss.terrastruct.com/") && fn.Synthetic == "" {
		return false
	}
	a.e.ensureBuilt(fn)
	if o := fn.Origin(); o != nil {
		a.e.ensureBuilt(o)
	}
	if len(fn.Blocks) == 0 {
		return false
	}
	if a.depth >= maxInlineDepth {
		return false
	}
	for p := a; p != nil; p = p.caller {
		if p.fn == fn {
			return false
		}
	}
	// closures defined in a function under verification are always inlined; others must be small and loop-free
	if fn.Parent() != nil {
		return true
	}
	n := 0
	for _, b := range fn.Blocks {
		n += len(b.Instrs)
		for _, s := range b.Succs {
			if s.Dominates(b) {
				return false
			}
		}
	}
	return n <= 120
}

func (a *act) inline(fn *ssa.Function, bindings []Val, args []Val, rtyp types.Type, st *State, reach Term, name string) (Val, *State) {
	e := a.e
	e.ensureBuilt(fn)
	if len(fn.Blocks) == 0 || a.depth >= maxInlineDepth {
		return a.opaque(name, args, rtyp, st, true), nil
	}
	for p := a; p != nil; p = p.caller {
		if p.fn == fn {
			return a.opaque(name+" (recursive)", args, rtyp, st, true), nil
		}
	}
	if e.cur.discovery == 0 {
		e.cur.inlined[name]++
	}
	sub := e.newAct(fn, a)
	sub.freeVars = bindings
	exitSt, results, exitReach := sub.run(args, st.clone(), reach)
	if exitSt == nil {
		// callee never returns normally
		e.cur.log.assert(not(reach))
		return e.freshVal("noret", rtyp, st), nil
	}
	// partial correctness: what follows the call is about executions in which the inlined callee returned normally.
	// Without this the merged exit state is unconstrained on paths that end inside the callee (a loop cut at its back
	// edge, a panic), while the caller's own reachability still holds.
	if exitReach.S != "" && exitReach.S != reach.S {
		e.cur.log.assert(implies(reach, exitReach))
	}
	return e.tupleOf(rtyp, results), exitSt
}

func (e *Engine) tupleOf(rtyp types.Type, results []Val) Val {
	switch len(results) {
	case 0:
		return Val{Typ: rtyp}
	case 1:
		r := results[0]
		return r
	}
	var ts []Term
	for _, r := range results {
		ts = append(ts, e.flat(r)...)
	}
	return Val{Typ: rtyp, T: ts, Ext: &KnownSlice{Elems: results}}
}

// pureUF: result is an uninterpreted function of the scalar arguments (fresh when an argument is composite).
func (a *act) pureUF(name string, args []Val, rtyp types.Type, st *State) Val {
	e := a.e
	var ats []Term
	var sorts []Sort
	scalar := true
	for _, v := range args {
		if v.T == nil {
			scalar = false
			break
		}
		ls := e.layout(v.Typ)
		for i, l := range ls {
			if l.Kind != lkScalar && l.Kind != lkRef && l.Kind != lkIfaceTag && l.Kind != lkIfacePay {
				scalar = false
			}
			ats = append(ats, v.T[i])
			sorts = append(sorts, l.Sort)
		}
	}
	ls := e.layout(rtyp)
	if !scalar {
		return e.freshVal("lib."+name, rtyp, st)
	}
	ts := make([]Term, len(ls))
	for i, l := range ls {
		if l.Kind == lkSliceArr || l.Kind == lkSliceOff || l.Kind == lkSliceLen || l.Kind == lkSliceCap {
			// slices returned by library functions: fresh backing array
			return e.freshVal("lib."+name, rtyp, st)
		}
		fname := "uf." + sanitize(name)
		if len(ls) > 1 {
			fname = fmt.Sprintf("%s.%d", fname, i)
		}
		if len(ats) == 0 {
			ts[i] = e.cur.log.declConst(fname, l.Sort)
		} else {
			e.cur.log.declFun(fname, sorts, l.Sort)
			ts[i] = app(l.Sort, fname, ats...)
		}
	}
	v := Val{Typ: rtyp, T: ts}
	e.assumeWF(v, st)
	return v
}

func (a *act) opaque(name string, args []Val, rtyp types.Type, st *State, havoc bool) Val {
	e := a.e
	if e.cur.discovery == 0 {
		e.cur.opaqueCalls[name]++
	}
	if havoc {
		a.havocAll(st)
		for _, v := range args {
			if lp, ok := v.Ext.(*LocPtr); ok && lp != nil && (lp.Kind == pkLocal || lp.Kind == pkGlobal) {
				if cur, ok := st.locals[lp.Key]; ok {
					st.locals[lp.Key] = e.freshVal("hv", cur.Typ, st)
				}
			}
			if cl, ok := v.Ext.(*Closure); ok && cl != nil {
				_ = cl // captured cells are heap objects: already havocked
			}
		}
	}
	return e.freshVal("opq."+name, rtyp, st)
}

// ---------------------------------------------------------------------------------------------
// contracts at call sites

func (a *act) applyContract(fs *FuncSpec, fn *ssa.Function, args []Val, cs callSite, rtyp types.Type, pos token.Pos, st *State, reach Term) (Val, *State) {
	e := a.e
	sig := fn.Signature
	env := e.newEnv(a, st)
	env.vars = map[string]Val{}
	env.fnScope = fn
	pi := 0
	if sig.Recv() != nil {
		env.vars[sig.Recv().Name()] = args[0]
		pi = 1
	}
	for i := 0; i < sig.Params().Len(); i++ {
		env.vars[sig.Params().At(i).Name()] = args[pi+i]
	}
	for _, fv := range fn.FreeVars {
		_ = fv
	}
	name := calleeName(fn)
	if fs.Trusted {
		e.cur.trustedUsed[name] = true
	}
	for _, l := range fs.Lets {
		v, err := env.eval(l.C.E)
		if err != nil {
			a.specError(l.C, err)
			continue
		}
		env.vars[l.Name] = v
	}
	for _, c := range fs.Requires {
		t, err := env.evalBool(c.E)
		if err != nil {
			a.specError(c, err)
			continue
		}
		if hasProp(c.Props, "typeinv") && fnPkg(fn) != nil && fnPkg(a.topFn()) != nil && fnPkg(fn).Pkg.Path() != fnPkg(a.topFn()).Pkg.Path() {
			// `requires [label @typeinv]`: a representation invariant over unexported fields of the callee's package.
			// Code of another package cannot break it (it cannot write those fields), the package's constructors
			// establish it and every method re-establishes it (those ARE obligations, inside the package): callers
			// outside the package may assume it. Listed in the evidence as an assumption.
			e.cur.externsUsed["type-invariant:"+calleeName(fn)+":"+c.Label] = true
			e.cur.log.assert(implies(reach, t))
			continue
		}
		a.obligation("requires", fmt.Sprintf("%s#%d:%s", cs.name, cs.ord, c.Label), pos, reach, t)
	}
	pre := st.clone()
	post := st
	if !fs.Pure {
		post.known = nil
		// the targets of a modifies clause are locations of the state BEFORE the call (`modifies p.buf, elems(p.buf)`
		// names the old backing array): evaluate them there, havoc in the post state
		henv := e.newEnv(a, pre)
		henv.vars = env.vars
		henv.fnScope = fn
		wild := false
		if fs.TrustFrame {
			e.cur.trustedUsed[name+" (frame assumed, not checked)"] = true
		} else if fs.NoFrame && len(fs.Modifies) == 0 && len(fs.GhostSets) == 0 {
			// `noframe` without a modifies clause: the body's writes are neither declared nor checked, so a caller
			// must not assume that anything survives the call
			a.havocAll(post)
		}
		for _, c := range fs.Modifies {
			if err := henv.havocTarget(c.E, post); err != nil {
				a.specError(c, err)
			}
			if c.E.Op == "call" && c.E.Args[0].Op == "ident" && c.E.Args[0].Name == "all" {
				wild = true
			}
		}
		if wild {
			// `modifies all(T.f)` havocs whole heap families; the caller's private memory is out of the callee's reach
			a.keepPrivate(post, pre.heap, pre.epoch)
		}
		for _, gs := range fs.GhostSets {
			if err := henv.havocTarget(gs.Target.E, post); err != nil {
				a.specError(gs.Target, err)
			}
		}
		na := e.cur.log.fresh("alloc", SInt)
		e.cur.log.assert(app(SBool, ">=", na, pre.alloc))
		post.alloc = na
	}
	// results
	var results []Val
	res := sig.Results()
	if fs.Pure {
		tv := a.pureSpecUF(fs, name, args, rtyp, pre)
		if res.Len() == 1 {
			results = []Val{tv}
		} else {
			off := 0
			for i := 0; i < res.Len(); i++ {
				n := len(e.layout(res.At(i).Type()))
				results = append(results, Val{Typ: res.At(i).Type(), T: tv.T[off : off+n]})
				off += n
			}
		}
	} else {
		for i := 0; i < res.Len(); i++ {
			results = append(results, e.freshVal(fmt.Sprintf("res.%s.%d", name, i), res.At(i).Type(), post))
		}
	}
	env2 := e.newEnv(a, post)
	env2.vars = map[string]Val{}
	for k, v := range env.vars {
		env2.vars[k] = v
	}
	env2.fnScope = fn
	env2.old = pre
	env2.results = results
	for i := 0; i < res.Len(); i++ {
		if n := res.At(i).Name(); n != "" && n != "_" {
			env2.vars[n] = results[i]
		}
	}
	for _, gs := range fs.GhostSets {
		name, srt, key, err := env2.ghostSetParts(gs)
		if err != nil {
			a.specError(gs.Target, err)
			continue
		}
		v, err := env2.eval(gs.Val.E)
		if err != nil || len(v.T) != 1 {
			continue
		}
		e.cur.log.assert(implies(reach, eq(sel(e.heapGet(post, name, srt), key), v.T[0])))
	}
	for _, c := range fs.Ensures {
		t, err := env2.evalBool(c.E)
		if err != nil {
			a.specError(c, err)
			continue
		}
		e.cur.log.assert(implies(reach, t))
	}
	return e.tupleOf(rtyp, results), post
}

// pureSpecUF: pure function under contract: uninterpreted in its arguments and the heap families it reads.
func (a *act) pureSpecUF(fs *FuncSpec, name string, args []Val, rtyp types.Type, st *State) Val {
	e := a.e
	var ats []Term
	var sorts []Sort
	for _, v := range args {
		for _, t := range e.flat(v) {
			ats = append(ats, t)
			sorts = append(sorts, t.Sort)
		}
	}
	for _, r := range fs.Reads {
		hs := e.heapsMatching(r)
		if len(hs) == 0 {
			// a reads entry that names nothing would silently drop a dependency
			e.cur.anchorErrs = append(e.cur.anchorErrs, fmt.Sprintf("%s/anchor:reads %s", name, r))
		}
		for _, h := range hs {
			t := e.heapGet(st, h, e.cur.heapSorts[h])
			ats = append(ats, t)
			sorts = append(sorts, t.Sort)
		}
	}
	if len(fs.Reads) == 0 && !fs.PureArgs {
		// no reads clause: the result may depend on the whole heap; two applications agree only when
		// nothing at all was written in between (same heap version)
		ats = append(ats, e.heapVersion(st))
		sorts = append(sorts, SInt)
	}
	ls := e.layout(rtyp)
	ts := make([]Term, len(ls))
	for i, l := range ls {
		fname := fmt.Sprintf("pure.%s.%d", sanitize(name), i)
		if len(ats) == 0 {
			ts[i] = e.cur.log.declConst(fname, l.Sort)
			continue
		}
		e.cur.log.declFun(fname, sorts, l.Sort)
		ts[i] = app(l.Sort, fname, ats...)
	}
	v := Val{Typ: rtyp, T: ts}
	e.assumeWF(v, st)
	return v
}

// heapsMatching: "d2graph.Object.ID" -> heap family names of that field (all leaves)
func (e *Engine) heapsMatching(pat string) []string {
	if strings.HasPrefix(pat, "elems(") && strings.HasSuffix(pat, ")") {
		// elems(pkg.Type) / elems(*pkg.Type): the backing arrays of slices with that element type
		inner := strings.TrimSuffix(strings.TrimPrefix(pat, "elems("), ")")
		ptr := strings.HasPrefix(inner, "*")
		inner = strings.TrimPrefix(inner, "*")
		parts := strings.Split(inner, ".")
		var out []string
		if len(parts) != 2 {
			return nil
		}
		for _, p := range e.pkgs {
			if p.Name != parts[0] || p.Types == nil {
				continue
			}
			obj := p.Types.Scope().Lookup(parts[1])
			if obj == nil {
				continue
			}
			var et types.Type = obj.Type()
			if ptr {
				et = types.NewPointer(et)
			}
			for _, l := range e.layout(et) {
				name := elemHeapName(et, l.Path)
				e.cur.heapSorts[name] = arrSort(SInt, arrSort(SInt, l.Sort))
				out = append(out, name)
			}
		}
		return out
	}
	parts := strings.Split(pat, ".")
	if len(parts) < 2 {
		return nil
	}
	var out []string
	for _, p := range e.pkgs {
		if p.Name != parts[0] || p.Types == nil {
			continue
		}
		obj := p.Types.Scope().Lookup(parts[1])
		if obj == nil {
			continue
		}
		t := obj.Type()
		ls := e.layout(t)
		prefix := ""
		for _, f := range parts[2:] {
			prefix += "." + f
		}
		for _, l := range ls {
			if prefix == "" || l.Path == prefix || strings.HasPrefix(l.Path, prefix+".") || strings.HasPrefix(l.Path, prefix+"$") {
				name := objHeapName(t, l.Path)
				e.cur.heapSorts[name] = arrSort(SInt, l.Sort)
				out = append(out, name)
			}
		}
	}
	return out
}

func (a *act) applyExtern(xs *ExternSpec, sig *types.Signature, args []Val, cs callSite, rtyp types.Type, pos token.Pos, st *State, reach Term) (Val, *State) {
	e := a.e
	e.cur.externsUsed[xs.Name] = true
	env := e.newEnv(a, st)
	env.vars = map[string]Val{}
	pi := 0
	if sig.Recv() != nil {
		n := sig.Recv().Name()
		if n == "" || n == "_" {
			n = "recv"
		}
		env.vars[n] = args[0]
		env.vars["recv"] = args[0]
		pi = 1
	} else if len(args) == sig.Params().Len()+1 {
		env.vars["recv"] = args[0]
		pi = 1
	}
	for i := 0; i < sig.Params().Len() && pi+i < len(args); i++ {
		n := sig.Params().At(i).Name()
		env.vars[fmt.Sprintf("arg%d", i)] = args[pi+i]
		if n != "" && n != "_" {
			env.vars[n] = args[pi+i]
		}
	}
	for _, c := range xs.Requires {
		t, err := env.evalBool(c.E)
		if err != nil {
			a.specError(c, err)
			continue
		}
		a.obligation("requires", fmt.Sprintf("%s#%d:%s", cs.name, cs.ord, c.Label), pos, reach, t)
	}
	pre := st.clone()
	post := st
	var result Val
	if xs.Pure {
		uargs := args
		if xs.Heap {
			uargs = append(append([]Val{}, args...), Val{Typ: types.Typ[types.Int], T: []Term{e.heapVersion(st)}})
		}
		result = a.pureUF(xs.Name, uargs, rtyp, st)
	} else {
		henv := e.newEnv(a, pre)
		henv.vars = env.vars
		for _, c := range xs.Modifies {
			if err := henv.havocTarget(c.E, post); err != nil {
				a.specError(c, err)
			}
		}
		na := e.cur.log.fresh("alloc", SInt)
		e.cur.log.assert(app(SBool, ">=", na, pre.alloc))
		post.alloc = na
		result = e.freshVal("ext."+xs.Name, rtyp, post)
	}
	env2 := e.newEnv(a, post)
	env2.vars = env.vars
	env2.old = pre
	res := sig.Results()
	if res.Len() <= 1 {
		env2.results = []Val{result}
	} else {
		off := 0
		for i := 0; i < res.Len(); i++ {
			n := len(e.layout(res.At(i).Type()))
			env2.results = append(env2.results, Val{Typ: res.At(i).Type(), T: result.T[off : off+n]})
			off += n
		}
	}
	for _, c := range xs.Ensures {
		t, err := env2.evalBool(c.E)
		if err != nil {
			a.specError(c, err)
			continue
		}
		e.cur.log.assert(implies(reach, t))
	}
	if xs.Name == "strconv.ParseFloat" && len(env2.results) == 2 && len(args) > 0 && args[0].T != nil {
		// the parsed float may be NaN: spec function nanF(s)
		e.cur.log.declFun("spec.nanF", []Sort{SStr}, SBool)
		f := env2.results[0]
		f.Ext = &FloatFlags{NaN: app(SBool, "spec.nanF", args[0].T[0])}
		result.Ext = &KnownSlice{Elems: []Val{f, env2.results[1]}}
	}
	return result, post
}

// ---------------------------------------------------------------------------------------------
// intrinsics: library functions with an interpreted meaning

func realApp(name string, args ...Term) Term {
	for i := range args {
		args[i] = toReal(args[i])
	}
	return app(SReal, name, args...)
}

func (a *act) intrinsic(name string, fn *ssa.Function, args []Val, rtyp types.Type, st *State, reach Term, site ssa.CallInstruction) (Val, bool) {
	e := a.e
	log := e.cur.log
	one := func(t Term) (Val, bool) { return Val{Typ: rtyp, T: []Term{t}}, true }
	t := func(i int) Term { return args[i].T[0] }
	for _, v := range args {
		if v.T == nil {
			return Val{}, false
		}
	}
	switch name {
	case "math.Max":
		return one(realApp("rmax", t(0), t(1)))
	case "math.Min":
		return one(realApp("rmin", t(0), t(1)))
	case "math.Ceil":
		return one(realApp("rceil", t(0)))
	case "math.Floor":
		return one(realApp("rfloor", t(0)))
	case "math.Round":
		return one(realApp("rround", t(0)))
	case "math.Trunc":
		return one(toReal(app(SInt, "rtrunc", t(0))))
	case "math.Abs":
		return one(realApp("rabs", t(0)))
	case "math.Inf":
		log.declConst("r.posinf", SReal)
		log.assert(Term{"(> r.posinf 1000000000000000000000000000000.0)", SBool})
		pos := Term{"r.posinf", SReal}
		return one(ite(app(SBool, ">=", t(0), intLit(0)), pos, app(SReal, "-", pos)))
	case "math.IsNaN", "math.IsInf":
		if !e.cur.ieee {
			return one(tFalse)
		}
	case "math.Sqrt":
		log.declFun("r.sqrt", []Sort{SReal}, SReal)
		r := app(SReal, "r.sqrt", t(0))
		log.assert(implies(app(SBool, ">=", t(0), Term{"0.0", SReal}), and(app(SBool, ">=", r, Term{"0.0", SReal}), eq(app(SReal, "*", r, r), t(0)))))
		return one(r)
	case "strings.Contains":
		e.notePred("contains", args[1])
		return one(app(SBool, "str.contains", t(0), t(1)))
	case "strings.HasPrefix":
		e.notePred("prefix", args[1])
		return one(app(SBool, "str.prefix", t(0), t(1)))
	case "strings.HasSuffix":
		e.notePred("suffix", args[1])
		return one(app(SBool, "str.suffix", t(0), t(1)))
	case "strings.ToLower":
		return one(app(SStr, "str.lower", t(0)))
	case "strings.ToUpper":
		return one(app(SStr, "str.upper", t(0)))
	case "strings.Index":
		return one(app(SInt, "str.index", t(0), t(1)))
	case "go2.Contains":
		// membership in a slice whose elements are known (constant package slice)
		if ks, ok := args[0].Ext.(*KnownSlice); ok && ks != nil && len(args) == 2 {
			var cs []Term
			for _, el := range ks.Elems {
				t, ok := e.valEq(args[1], el)
				if !ok {
					return Val{}, false
				}
				cs = append(cs, t)
			}
			return one(or(cs...))
		}
	case "go2.Min", "go2.Max":
		op := "imin"
		if name == "go2.Max" {
			op = "imax"
		}
		if t(0).Sort == SReal {
			op = "r" + op[1:]
			return one(app(SReal, op, t(0), t(1)))
		}
		if t(0).Sort == SInt {
			return one(app(SInt, op, t(0), t(1)))
		}
	}
	return Val{}, false
}

func (e *Engine) notePred(pred string, lit Val) {
	if lit.T == nil {
		return
	}
	s := lit.T[0].S
	if !strings.HasPrefix(s, "lit!") && s != "str.empty" {
		return
	}
	m := e.cur.strPredLits[pred]
	if m == nil {
		m = map[string]bool{}
		e.cur.strPredLits[pred] = m
	}
	m[s] = true
}

// ---------------------------------------------------------------------------------------------
// builtins

func (a *act) builtin(b *ssa.Builtin, site ssa.CallInstruction, args []Val, rtyp types.Type, st *State, reach Term) (Val, *State) {
	e := a.e
	log := e.cur.log
	switch b.Name() {
	case "len":
		return Val{Typ: rtyp, T: []Term{e.lenOf(args[0], st)}}, nil
	case "cap":
		if args[0].T != nil && len(args[0].T) == 4 {
			return Val{Typ: rtyp, T: []Term{args[0].T[3]}}, nil
		}
	case "min", "max":
		op := b.Name()
		acc := args[0].T[0]
		for _, v := range args[1:] {
			x, y := coerce(acc, v.T[0])
			pre := "i"
			if x.Sort == SReal {
				pre = "r"
			}
			acc = app(x.Sort, pre+op, x, y)
		}
		return Val{Typ: rtyp, T: []Term{acc}}, nil
	case "append":
		return a.appendOp(args, rtyp, st, reach), nil
	case "copy":
		return a.copyOp(args, rtyp, st), nil
	case "delete":
		mt := args[0].Typ.Underlying().(*types.Map)
		mh := e.mapHeaps(mt)
		if mh != nil && args[0].T != nil && args[1].T != nil {
			m := args[0].T[0]
			d := e.heapGet(st, mh.dom, mh.domSort)
			// delete on nil map is a no-op
			e.heapSet(st, mh.dom, store(d, m, store(sel(d, m), args[1].T[0], tFalse)))
			return Val{Typ: rtyp}, nil
		}
	case "print", "println":
		return Val{Typ: rtyp}, nil
	case "ssa:wrapnilchk":
		return args[0], nil
	case "ssa:deferstack":
		return Val{Typ: rtyp, T: []Term{intLit(0)}}, nil
	case "panic":
		a.obligation("panic", "explicit", site.Pos(), reach, tFalse)
		return Val{Typ: rtyp}, nil
	case "recover":
		e.cur.abstracted("recover()")
		return e.freshVal("recover", rtyp, st), nil
	}
	_ = log
	e.cur.abstracted("builtin " + b.Name())
	return e.freshVal("builtin", rtyp, st), nil
}

func (e *Engine) lenOf(v Val, st *State) Term {
	switch u := v.Typ.Underlying().(type) {
	case *types.Slice:
		if v.T != nil {
			return v.T[2]
		}
	case *types.Basic:
		if v.T != nil {
			return app(SInt, "str.len", v.T[0])
		}
	case *types.Array:
		return intLit(u.Len())
	case *types.Pointer:
		if at, ok := u.Elem().Underlying().(*types.Array); ok {
			return intLit(at.Len())
		}
	case *types.Map:
		if mh := e.mapHeaps(u); mh != nil && v.T != nil {
			fname := "map.len." + sanitize(string(mh.keySort))
			e.cur.log.declFun(fname, []Sort{arrSort(mh.keySort, SBool)}, SInt)
			t := app(SInt, fname, sel(e.heapGet(st, mh.dom, mh.domSort), v.T[0]))
			t = ite(eq(v.T[0], intLit(0)), intLit(0), t)
			e.cur.log.assert(app(SBool, "<=", intLit(0), t))
			return t
		}
	}
	t := e.cur.log.fresh("len", SInt)
	e.cur.log.assert(app(SBool, "<=", intLit(0), t))
	return t
}

func (a *act) appendOp(args []Val, rtyp types.Type, st *State, reach Term) Val {
	e := a.e
	log := e.cur.log
	s := args[0]
	if s.T == nil || len(s.T) != 4 {
		e.cur.abstracted("append to descriptor")
		return e.freshVal("append", rtyp, st)
	}
	st0 := rtyp.Underlying().(*types.Slice)
	et := st0.Elem()
	arr, off, ln, cp := s.T[0], s.T[1], s.T[2], s.T[3]
	if len(args) < 2 {
		return s
	}
	t := args[1]
	if ks, ok := t.Ext.(*KnownSlice); ok && ks != nil {
		n := int64(len(ks.Elems))
		if n == 0 {
			return s
		}
		newLen := app(SInt, "+", ln, intLit(n))
		inplace := log.define("inplace", and(app(SBool, "<=", newLen, cp), app(SBool, "distinct", arr, intLit(0))))
		fresh := a.freshRef(st, "append")
		narr := log.define("arr", ite(inplace, arr, fresh))
		ncap := log.fresh("cap", SInt)
		log.assert(ite(inplace, eq(ncap, cp), app(SBool, ">=", ncap, newLen)))
		for j, l := range e.layout(et) {
			name := elemHeapName(et, l.Path)
			srt := arrSort(SInt, arrSort(SInt, l.Sort))
			h := e.heapGet(st, name, srt)
			inner := sel(h, arr)
			for i, ev := range ks.Elems {
				ef := e.flat(ev)
				inner = store(inner, addTerms(addTerms(off, ln), intLit(int64(i))), castSort(ef[j], l.Sort))
			}
			e.heapSet(st, name, store(h, narr, inner))
		}
		return Val{Typ: rtyp, T: []Term{narr, off, log.define("len", newLen), ncap}}
	}
	// general case: append(s, t...) with symbolic t (slice or string)
	var m Term
	if t.T != nil && len(t.T) == 4 {
		m = t.T[2]
	} else if t.T != nil && len(t.T) == 1 && t.T[0].Sort == SStr {
		m = app(SInt, "str.len", t.T[0])
	} else {
		e.cur.abstracted("append of descriptor")
		return e.freshVal("append", rtyp, st)
	}
	newLen := log.define("len", app(SInt, "+", ln, m))
	inplaceB := log.fresh("inplace", SBool)
	log.assert(implies(inplaceB, and(app(SBool, "<=", newLen, cp), app(SBool, "distinct", arr, intLit(0)))))
	fresh := a.freshRef(st, "append")
	narr := log.define("arr", ite(inplaceB, arr, fresh))
	ncap := log.fresh("cap", SInt)
	log.assert(ite(inplaceB, eq(ncap, cp), app(SBool, ">=", ncap, newLen)))
	for _, l := range e.layout(et) {
		name := elemHeapName(et, l.Path)
		srt := arrSort(SInt, arrSort(SInt, l.Sort))
		h := e.heapGet(st, name, srt)
		nh := log.fresh(name, srt)
		// frame: other arrays unchanged
		log.assert(Term{fmt.Sprintf("(forall ((r Int)) (! (=> (distinct r %s) (= (select %s r) (select %s r))) :pattern ((select %s r))))", narr.S, nh.S, h.S, nh.S), SBool})
		// prefix preserved
		base := addTerms(off, ln)
		log.assert(Term{fmt.Sprintf("(forall ((j Int)) (! (=> (< j %s) (= (select (select %s %s) j) (select (select %s %s) j))) :pattern ((select (select %s %s) j))))",
			base.S, nh.S, narr.S, h.S, arr.S, nh.S, narr.S), SBool})
		if len(t.T) == 4 {
			log.assert(Term{fmt.Sprintf("(forall ((j Int)) (! (=> (and (<= 0 j) (< j %s)) (= (select (select %s %s) (+ %s j)) (select (select %s %s) (+ %s j)))) :pattern ((select (select %s %s) (+ %s j)))))",
				m.S, nh.S, narr.S, base.S, h.S, t.T[0].S, t.T[1].S, nh.S, narr.S, base.S), SBool})
		}
		e.heapReplace(st, name, nh)
	}
	return Val{Typ: rtyp, T: []Term{narr, off, newLen, ncap}}
}

func (a *act) copyOp(args []Val, rtyp types.Type, st *State) Val {
	e := a.e
	log := e.cur.log
	dst, src := args[0], args[1]
	if dst.T == nil || len(dst.T) != 4 || src.T == nil {
		e.cur.abstracted("copy with descriptor")
		a.havocAll(st)
		return e.freshVal("copy", rtyp, st)
	}
	et := dst.Typ.Underlying().(*types.Slice).Elem()
	var m Term
	if len(src.T) == 4 {
		m = src.T[2]
	} else {
		m = app(SInt, "str.len", src.T[0])
	}
	n := log.define("copied", app(SInt, "imin", dst.T[2], m))
	for _, l := range e.layout(et) {
		name := elemHeapName(et, l.Path)
		srt := arrSort(SInt, arrSort(SInt, l.Sort))
		h := e.heapGet(st, name, srt)
		nh := log.fresh(name, srt)
		d, doff := dst.T[0], dst.T[1]
		log.assert(Term{fmt.Sprintf("(forall ((r Int)) (! (=> (distinct r %s) (= (select %s r) (select %s r))) :pattern ((select %s r))))", d.S, nh.S, h.S, nh.S), SBool})
		log.assert(Term{fmt.Sprintf("(forall ((j Int)) (! (=> (or (< j %s) (>= j (+ %s %s))) (= (select (select %s %s) j) (select (select %s %s) j))) :pattern ((select (select %s %s) j))))",
			doff.S, doff.S, n.S, nh.S, d.S, h.S, d.S, nh.S, d.S), SBool})
		if len(src.T) == 4 {
			log.assert(Term{fmt.Sprintf("(forall ((j Int)) (! (=> (and (<= 0 j) (< j %s)) (= (select (select %s %s) (+ %s j)) (select (select %s %s) (+ %s j)))) :pattern ((select (select %s %s) (+ %s j)))))",
				n.S, nh.S, d.S, doff.S, h.S, src.T[0].S, src.T[1].S, nh.S, d.S, doff.S), SBool})
		}
		e.heapReplace(st, name, nh)
	}
	return Val{Typ: rtyp, T: []Term{n}}
}
