package main

import (
	"fmt"
	"go/token"
	"go/types"
	"strings"

	"golang.org/x/tools/go/ssa"
)

func (a *act) unop(x *ssa.UnOp, st *State, reach Term) Val {
	e := a.e
	v := a.val(x.X, st)
	switch x.Op {
	case token.MUL:
		return a.loadFrom(v, st, reach, x.Pos(), a.exprText(x.X))
	case token.NOT:
		return Val{Typ: x.Type(), T: []Term{not(v.one())}}
	case token.SUB:
		t := v.one()
		return Val{Typ: x.Type(), T: []Term{app(t.Sort, "-", t)}}
	case token.XOR:
		t := v.one()
		e.cur.log.declFun("bv.not", []Sort{SInt}, SInt)
		return Val{Typ: x.Type(), T: []Term{app(SInt, "bv.not", t)}}
	case token.ARROW:
		e.cur.abstracted("channel receive")
		a.havocAll(st)
		return e.freshVal("recv", x.Type(), st)
	}
	e.cur.abstracted("unop " + x.Op.String())
	return e.freshVal("unop", x.Type(), st)
}

func (a *act) binop(x *ssa.BinOp, st *State, reach Term) Val {
	e := a.e
	l, r := a.val(x.X, st), a.val(x.Y, st)
	t, ok := e.binopTerms(x.Op, l, r, x.X.Type(), func(cond Term) {
		a.safety("div-zero", a.exprText(x), x.Pos(), reach, cond)
	})
	if !ok {
		e.cur.abstracted("binop " + x.Op.String() + " on " + x.X.Type().String())
		return e.freshVal("binop", x.Type(), st)
	}
	return Val{Typ: x.Type(), T: []Term{t}}
}

// binopTerms computes Go's binary operator on symbolic values.
func (e *Engine) binopTerms(op token.Token, l, r Val, operandType types.Type, divCheck func(Term)) (Term, bool) {
	switch op {
	case token.EQL, token.NEQ:
		t, ok := e.valEq(l, r)
		if !ok {
			return Term{}, false
		}
		for _, v := range []Val{l, r} {
			if ff, ok := v.Ext.(*FloatFlags); ok && ff != nil {
				t = and(not(ff.NaN), t) // NaN == x is false
			}
		}
		if op == token.NEQ {
			t = not(t)
		}
		return t, true
	}
	if len(l.T) != 1 || len(r.T) != 1 {
		return Term{}, false
	}
	lt, rt := l.T[0], r.T[0]
	lt, rt = coerce(lt, rt)
	srt := lt.Sort
	switch op {
	case token.ADD:
		if srt == SStr {
			return app(SStr, "str.cat", lt, rt), true
		}
		return app(srt, "+", lt, rt), true
	case token.SUB:
		return app(srt, "-", lt, rt), true
	case token.MUL:
		return app(srt, "*", lt, rt), true
	case token.QUO:
		if srt == SReal {
			return app(SReal, "/", lt, rt), true
		}
		if divCheck != nil {
			divCheck(app(SBool, "distinct", rt, intLit(0)))
		}
		return app(SInt, "godiv", lt, rt), true
	case token.REM:
		if srt != SInt {
			return Term{}, false
		}
		if divCheck != nil {
			divCheck(app(SBool, "distinct", rt, intLit(0)))
		}
		return app(SInt, "gomod", lt, rt), true
	case token.LSS, token.LEQ, token.GTR, token.GEQ:
		o := map[token.Token]string{token.LSS: "<", token.LEQ: "<=", token.GTR: ">", token.GEQ: ">="}[op]
		if srt == SStr {
			e.cur.log.declFun("str.lt", []Sort{SStr, SStr}, SBool)
			switch op {
			case token.LSS:
				return app(SBool, "str.lt", lt, rt), true
			case token.GTR:
				return app(SBool, "str.lt", rt, lt), true
			case token.LEQ:
				return not(app(SBool, "str.lt", rt, lt)), true
			default:
				return not(app(SBool, "str.lt", lt, rt)), true
			}
		}
		cmp := app(SBool, o, lt, rt)
		// a float that may be NaN (result of strconv.ParseFloat): every ordered comparison with NaN is false
		for _, v := range []Val{l, r} {
			if ff, ok := v.Ext.(*FloatFlags); ok && ff != nil {
				cmp = and(not(ff.NaN), cmp)
			}
		}
		return cmp, true
	case token.LAND:
		return and(lt, rt), true
	case token.LOR:
		return or(lt, rt), true
	case token.AND, token.OR, token.XOR, token.SHL, token.SHR, token.AND_NOT:
		if srt == SBool {
			switch op {
			case token.AND:
				return and(lt, rt), true
			case token.OR:
				return or(lt, rt), true
			}
		}
		if srt != SInt {
			return Term{}, false
		}
		name := map[token.Token]string{token.AND: "bv.and", token.OR: "bv.or", token.XOR: "bv.xor", token.SHL: "bv.shl", token.SHR: "bv.shr", token.AND_NOT: "bv.andnot"}[op]
		// shifts by constants are arithmetic
		if op == token.SHL && isIntLit(rt.S) {
			var k uint
			fmt.Sscanf(rt.S, "%d", &k)
			if k < 62 {
				return app(SInt, "*", lt, intLit(int64(1)<<k)), true
			}
		}
		if t, ok := bitOpConst(op, lt, rt); ok {
			return t, true
		}
		e.cur.log.declFun(name, []Sort{SInt, SInt}, SInt)
		return app(SInt, name, lt, rt), true
	}
	return Term{}, false
}

// valEq: Go equality of two values of the same type.
func (e *Engine) valEq(l, r Val) (Term, bool) {
	// interior pointers: equal descriptors only
	if l.T == nil || r.T == nil {
		lp, lok := l.Ext.(*LocPtr)
		rp, rok := r.Ext.(*LocPtr)
		if lok && rok && lp != nil && rp != nil {
			if lp.equal(rp) {
				return tTrue, true
			}
			return Term{}, false
		}
		// interior pointer vs nil
		if lok && lp != nil && r.T != nil && len(r.T) == 1 && r.T[0].S == "0" {
			return tFalse, true
		}
		if rok && rp != nil && l.T != nil && len(l.T) == 1 && l.T[0].S == "0" {
			return tFalse, true
		}
		// closure vs nil
		if _, ok := l.Ext.(*Closure); ok && r.T != nil && len(r.T) == 1 && r.T[0].S == "0" {
			return tFalse, true
		}
		if _, ok := r.Ext.(*Closure); ok && l.T != nil && len(l.T) == 1 && l.T[0].S == "0" {
			return tFalse, true
		}
		return Term{}, false
	}
	// comparing interface with concrete nil etc: leaf counts may differ when one side is untyped nil
	if len(l.T) != len(r.T) {
		if len(r.T) == 1 && r.T[0].S == "0" {
			var cs []Term
			for _, t := range l.T {
				if t.Sort == SInt {
					cs = append(cs, eq(t, intLit(0)))
				}
			}
			return and(cs[0]), true
		}
		if len(l.T) == 1 && l.T[0].S == "0" {
			return e.valEq(r, l)
		}
		return Term{}, false
	}
	// slices can only be compared to nil
	if _, ok := l.Typ.Underlying().(*types.Slice); ok {
		return eq(l.T[0], r.T[0]), true
	}
	var cs []Term
	for i := range l.T {
		cs = append(cs, eq(l.T[i], r.T[i]))
	}
	return and(cs...), true
}

func (a *act) convert(v Val, from, to types.Type, st *State) Val {
	e := a.e
	fl, tl := e.layout(from), e.layout(to)
	if len(fl) == 1 && len(tl) == 1 && v.T != nil {
		fs, ts := fl[0].Sort, tl[0].Sort
		t := v.T[0]
		switch {
		case fs == ts && fs != SStr:
			// integer narrowing / sign change is identity under assumption A1; unsigned byte conversion of
			// possibly larger value is abstracted with range facts
			if fs == SInt {
				if tb, ok := to.Underlying().(*types.Basic); ok {
					if fb, ok := from.Underlying().(*types.Basic); ok && tb.Kind() != fb.Kind() {
						switch tb.Kind() {
						case types.Uint8:
							if fb.Kind() != types.Uint8 {
								nt := app(SInt, "mod", t, intLit(256))
								return Val{Typ: to, T: []Term{nt}}
							}
						}
					}
				}
			}
			return Val{Typ: to, T: []Term{t}, Ext: v.Ext}
		case fs == SStr && ts == SStr:
			return Val{Typ: to, T: []Term{t}}
		case fs == SInt && ts == SReal:
			return Val{Typ: to, T: []Term{toReal(t)}}
		case fs == SReal && ts == SInt:
			return Val{Typ: to, T: []Term{app(SInt, "rtrunc", t)}}
		case fs == SInt && ts == SStr: // string(rune)
			e.cur.log.declFun("str.fromRune", []Sort{SInt}, SStr)
			r := app(SStr, "str.fromRune", t)
			e.cur.log.assert(and(app(SBool, "<=", intLit(1), app(SInt, "str.len", r)), app(SBool, "<=", app(SInt, "str.len", r), intLit(4))))
			return Val{Typ: to, T: []Term{r}}
		}
	}
	// []byte(string), string([]byte), []rune(string), string([]rune)
	if _, ok := to.Underlying().(*types.Slice); ok && len(fl) == 1 && fl[0].Sort == SStr && v.T != nil {
		r := a.freshRef(st, "conv")
		ln := e.cur.log.fresh("bytesOf$len", SInt)
		cp := e.cur.log.fresh("bytesOf$cap", SInt)
		e.cur.log.assert(and(app(SBool, "<=", intLit(0), ln), app(SBool, "<=", ln, cp)))
		et := to.Underlying().(*types.Slice).Elem()
		if b, ok := et.Underlying().(*types.Basic); ok && b.Kind() == types.Uint8 {
			e.cur.log.assert(eq(ln, app(SInt, "str.len", v.T[0])))
		} else {
			// []rune(s): between 1 rune per 4 bytes and 1 rune per byte; non-empty exactly when s is
			e.cur.log.assert(app(SBool, "<=", ln, app(SInt, "str.len", v.T[0])))
			e.cur.log.assert(app(SBool, "<=", app(SInt, "str.len", v.T[0]), app(SInt, "*", intLit(4), ln)))
		}
		return Val{Typ: to, T: []Term{r, intLit(0), ln, cp}}
	}
	if _, ok := from.Underlying().(*types.Slice); ok && len(tl) == 1 && tl[0].Sort == SStr && v.T != nil {
		s := e.cur.log.fresh("strOf", SStr)
		et := from.Underlying().(*types.Slice).Elem()
		if b, ok := et.Underlying().(*types.Basic); ok && b.Kind() == types.Uint8 {
			e.cur.log.assert(eq(app(SInt, "str.len", s), v.T[2]))
		}
		return Val{Typ: to, T: []Term{s}}
	}
	if len(fl) == len(tl) && v.T != nil {
		return Val{Typ: to, T: v.T}
	}
	e.cur.abstracted("convert " + from.String() + " -> " + to.String())
	return e.freshVal("conv", to, st)
}

// ---------------------------------------------------------------------------------------------
// interfaces

func boxFn(s Sort) string { return "box." + string(s) }

func (e *Engine) declBox(s Sort) {
	e.cur.log.declFun("box."+string(s), []Sort{s}, SInt)
	e.cur.log.declFun("unbox."+string(s), []Sort{SInt}, s)
}

func (a *act) makeInterface(v Val, from, to types.Type, st *State) Val {
	e := a.e
	tag := intLit(int64(e.typeTag(from)))
	ls := e.layout(from)
	var pay Term
	switch {
	case v.T == nil:
		pay = e.cur.log.fresh("pay", SInt)
	case len(ls) == 1 && ls[0].Sort == SInt:
		pay = v.T[0]
	case len(ls) == 1 && ls[0].Sort == SBool:
		pay = ite(v.T[0], intLit(1), intLit(0))
	case len(ls) == 1:
		e.declBox(ls[0].Sort)
		pay = app(SInt, "box."+string(ls[0].Sort), v.T[0])
		e.cur.log.assert(eq(app(ls[0].Sort, "unbox."+string(ls[0].Sort), pay), v.T[0]))
	case len(ls) == 0:
		pay = intLit(0)
	default:
		// composite: box function per type with one inverse per leaf
		name := "box." + sanitize(typeKey(from))
		var sorts []Sort
		for _, l := range ls {
			sorts = append(sorts, l.Sort)
		}
		e.cur.log.declFun(name, sorts, SInt)
		pay = e.cur.log.define("pay", app(SInt, name, v.T...))
		for i, l := range ls {
			un := fmt.Sprintf("un%s.%d", name, i)
			e.cur.log.declFun(un, []Sort{SInt}, l.Sort)
			e.cur.log.assert(eq(app(l.Sort, un, pay), v.T[i]))
		}
	}
	return Val{Typ: to, T: []Term{tag, pay}, Ext: &Boxed{V: v}}
}

// unbox recovers a value of concrete type t from an interface payload.
func (e *Engine) unbox(pay Term, t types.Type, st *State) Val {
	ls := e.layout(t)
	switch {
	case len(ls) == 1 && ls[0].Sort == SInt:
		return Val{Typ: t, T: []Term{pay}}
	case len(ls) == 1 && ls[0].Sort == SBool:
		return Val{Typ: t, T: []Term{app(SBool, "distinct", pay, intLit(0))}}
	case len(ls) == 1:
		e.declBox(ls[0].Sort)
		pre := "(box." + string(ls[0].Sort) + " "
		if strings.HasPrefix(pay.S, pre) {
			return Val{Typ: t, T: []Term{{pay.S[len(pre) : len(pay.S)-1], ls[0].Sort}}}
		}
		return Val{Typ: t, T: []Term{app(ls[0].Sort, "unbox."+string(ls[0].Sort), pay)}}
	case len(ls) == 0:
		return Val{Typ: t}
	}
	name := "box." + sanitize(typeKey(t))
	var sorts []Sort
	for _, l := range ls {
		sorts = append(sorts, l.Sort)
	}
	e.cur.log.declFun(name, sorts, SInt)
	ts := make([]Term, len(ls))
	for i, l := range ls {
		un := fmt.Sprintf("un%s.%d", name, i)
		e.cur.log.declFun(un, []Sort{SInt}, l.Sort)
		ts[i] = app(l.Sort, un, pay)
	}
	v := Val{Typ: t, T: ts}
	e.assumeWF(v, st)
	return v
}

func (a *act) typeAssert(x *ssa.TypeAssert, st *State, reach Term) Val {
	e := a.e
	v := a.val(x.X, st)
	flat := e.flat(v)
	tag, pay := flat[0], flat[1]
	var ok Term
	var res Val
	if types.IsInterface(x.AssertedType) {
		// interface-to-interface: succeeds iff dynamic type implements; decided statically when the tag is known
		ok = e.cur.log.fresh("implements", SBool)
		if isIntLit(tag.S) {
			var k int
			fmt.Sscanf(tag.S, "%d", &k)
			if k >= 1 && k <= len(e.tagTypes) {
				if types.Implements(e.tagTypes[k-1], x.AssertedType.Underlying().(*types.Interface)) {
					ok = tTrue
				} else {
					ok = tFalse
				}
			}
		}
		if !isIntLit(tag.S) {
			// unknown dynamic type: for every type that has a tag, the answer is the static one (types that get their
			// tag later stay undetermined); with a sealed source interface this makes type switches exhaustive
			iface := x.AssertedType.Underlying().(*types.Interface)
			for _, it := range e.sealedImplementors(x.X.Type()) {
				e.typeTag(it)
			}
			for k, tt := range e.tagTypes {
				is := eq(tag, intLit(int64(k+1)))
				if types.Implements(tt, iface) {
					e.cur.log.assert(implies(is, ok))
				} else {
					e.cur.log.assert(implies(is, not(ok)))
				}
			}
		}
		ok = and(ok, app(SBool, "distinct", tag, intLit(0)))
		res = Val{Typ: x.AssertedType, T: []Term{tag, pay}, Ext: v.Ext}
	} else {
		want := intLit(int64(e.typeTag(x.AssertedType)))
		ok = eq(tag, want)
		if b, isB := v.Ext.(*Boxed); isB && b != nil && types.Identical(b.V.Typ, x.AssertedType) {
			res = b.V
		} else {
			res = e.unbox(pay, x.AssertedType, st)
		}
	}
	if !x.CommaOk {
		a.safety("type-assert", a.exprText(x.X)+".("+types.TypeString(x.AssertedType, shortQual)+")", x.Pos(), reach, ok)
		return res
	}
	// (value, ok): value is zero when !ok
	rf := e.flat(res)
	z := e.zero(x.AssertedType)
	ts := make([]Term, 0, len(rf)+1)
	for i := range rf {
		ts = append(ts, ite(ok, rf[i], z.T[i]))
	}
	ts = append(ts, ok)
	out := Val{Typ: x.Type(), T: ts}
	if res.Ext != nil {
		out.Ext = &KnownSlice{Elems: []Val{res, {Typ: types.Typ[types.Bool], T: []Term{ok}}}}
	}
	return out
}

func shortQual(p *types.Package) string { return p.Name() }

// ---------------------------------------------------------------------------------------------
// maps

type mapHeapInfo struct {
	dom     string
	domSort Sort
	keySort Sort
	val     []string
	valSort []Sort
	vleaves []Leaf
}

func (e *Engine) mapHeaps(mt *types.Map) *mapHeapInfo {
	kl := e.layout(mt.Key())
	if len(kl) != 1 {
		return nil
	}
	ks := kl[0].Sort
	base := sanitize(typeKey(mt.Key())) + "__" + sanitize(typeKey(mt.Elem()))
	mh := &mapHeapInfo{dom: "MD_" + base, domSort: arrSort(SInt, arrSort(ks, SBool)), keySort: ks}
	for _, l := range e.layout(mt.Elem()) {
		mh.val = append(mh.val, "MV_"+base+sanitize(l.Path))
		mh.valSort = append(mh.valSort, arrSort(SInt, arrSort(ks, l.Sort)))
		mh.vleaves = append(mh.vleaves, l)
	}
	return mh
}

func (a *act) lookup(x *ssa.Lookup, st *State, reach Term) Val {
	e := a.e
	base := a.val(x.X, st)
	idx := a.val(x.Index, st)
	if mt, ok := x.X.Type().Underlying().(*types.Map); ok {
		mh := e.mapHeaps(mt)
		if mh == nil || base.T == nil || idx.T == nil {
			e.cur.abstracted("map lookup with composite key")
			return e.freshVal("lookup", x.Type(), st)
		}
		m, k := base.T[0], idx.T[0]
		in := sel(sel(e.heapGet(st, mh.dom, mh.domSort), m), k)
		in = and(app(SBool, "distinct", m, intLit(0)), in)
		in = e.cur.log.define("inmap", in)
		var ts []Term
		for i, name := range mh.val {
			v := sel(sel(e.heapGet(st, name, mh.valSort[i]), m), k)
			ts = append(ts, ite(in, v, zeroOf(mh.vleaves[i].Sort)))
		}
		vv := Val{Typ: mt.Elem(), T: ts}
		e.assumeWF(vv, st)
		if x.CommaOk {
			return Val{Typ: x.Type(), T: append(ts, in)}
		}
		return vv
	}
	// string index
	i := idx.one()
	s := base.one()
	a.safety("index", a.indexLabel(x.X, x.Index), x.Pos(), reach, and(app(SBool, "<=", intLit(0), i), app(SBool, "<", i, app(SInt, "str.len", s))))
	t := app(SInt, "str.at", s, i)
	e.cur.log.assert(and(app(SBool, "<=", intLit(0), t), app(SBool, "<=", t, intLit(255))))
	return Val{Typ: x.Type(), T: []Term{t}}
}

func (a *act) mapUpdate(x *ssa.MapUpdate, st *State, reach Term) {
	e := a.e
	base := a.val(x.Map, st)
	k := a.val(x.Key, st)
	v := a.val(x.Value, st)
	mt := x.Map.Type().Underlying().(*types.Map)
	mh := e.mapHeaps(mt)
	if mh == nil || base.T == nil || k.T == nil {
		e.cur.abstracted("map update with composite key")
		return
	}
	m := base.T[0]
	a.safety("nil-map", a.exprText(x.Map), x.Pos(), reach, app(SBool, "distinct", m, intLit(0)))
	d := e.heapGet(st, mh.dom, mh.domSort)
	e.heapSet(st, mh.dom, store(d, m, store(sel(d, m), k.T[0], tTrue)))
	vf := e.flat(v)
	for i, name := range mh.val {
		h := e.heapGet(st, name, mh.valSort[i])
		e.heapSet(st, name, store(h, m, store(sel(h, m), k.T[0], vf[i])))
	}
}

func (a *act) next(x *ssa.Next, st *State, reach Term) Val {
	e := a.e
	it := a.val(x.Iter, st)
	log := e.cur.log
	tup := x.Type().(*types.Tuple)
	switch iter := it.Ext.(type) {
	case *StrIter:
		pos := st.locals[iter.Key].T[0]
		s := iter.S.T[0]
		ok := app(SBool, "<", pos, app(SInt, "str.len", s))
		log.declFun("str.runeAt", []Sort{SStr, SInt}, SInt)
		log.declFun("str.runeWidth", []Sort{SStr, SInt}, SInt)
		r := app(SInt, "str.runeAt", s, pos)
		w := app(SInt, "str.runeWidth", s, pos)
		log.assert(implies(ok, and(app(SBool, "<=", intLit(1), w), app(SBool, "<=", w, intLit(4)),
			app(SBool, "<=", app(SInt, "+", pos, w), app(SInt, "str.len", s)),
			app(SBool, "<=", intLit(0), r), app(SBool, "<=", r, intLit(0x10FFFF)),
			not(and(app(SBool, "<=", intLit(0xD800), r), app(SBool, "<=", r, intLit(0xDFFF)))))))
		// UTF-8: a byte below 0x80 is a one-byte sequence for the rune of the same value; any other start byte gives a
		// rune of at least 0x80 (or U+FFFD for an invalid sequence)
		b := app(SInt, "str.at", s, pos)
		log.assert(implies(ok, and(
			implies(app(SBool, "<", b, intLit(0x80)), and(eq(r, b), eq(w, intLit(1)))),
			implies(app(SBool, ">=", b, intLit(0x80)), app(SBool, ">=", r, intLit(0x80))))))
		st.locals[iter.Key] = Val{Typ: types.Typ[types.Int], T: []Term{log.define("pos", ite(ok, app(SInt, "+", pos, w), pos))}}
		return Val{Typ: tup, T: []Term{ok, pos, r}}
	case *MapIter:
		mt := iter.M.Typ.Underlying().(*types.Map)
		mh := e.mapHeaps(mt)
		ok := log.fresh("next.ok", SBool)
		kv := e.freshVal("next.k", mt.Key(), st)
		if mh == nil || iter.M.T == nil {
			vv := e.freshVal("next.v", mt.Elem(), st)
			return Val{Typ: tup, T: append(append([]Term{ok}, e.flat(kv)...), e.flat(vv)...)}
		}
		m := iter.M.T[0]
		log.assert(implies(ok, and(app(SBool, "distinct", m, intLit(0)), sel(sel(e.heapGet(st, mh.dom, mh.domSort), m), kv.T[0]))))
		var ts []Term
		for i, name := range mh.val {
			ts = append(ts, sel(sel(e.heapGet(st, name, mh.valSort[i]), m), kv.T[0]))
		}
		vv := Val{Typ: mt.Elem(), T: ts}
		e.assumeWF(vv, st)
		return Val{Typ: tup, T: append(append([]Term{ok}, kv.T...), ts...)}
	}
	e.cur.abstracted("Next on unknown iterator")
	return e.freshVal("next", tup, st)
}

// ---------------------------------------------------------------------------------------------
// globals that are effectively constant: initialised by a constant in the package initialiser and never
// stored to anywhere else in the loaded module packages.

func (e *Engine) constGlobal(g *ssa.Global) (Val, bool) {
	if e.constGlobals == nil {
		e.constGlobals = map[*ssa.Global]*Val{}
	}
	if v, ok := e.constGlobals[g]; ok {
		if v == nil {
			return Val{}, false
		}
		return *v, true
	}
	e.constGlobals[g] = nil
	et := g.Type().(*types.Pointer).Elem()
	if len(e.layout(et)) != 1 {
		return Val{}, false
	}
	// only variables of the module's own packages are scanned for stores; library variables stay symbolic
	if g.Pkg == nil || !strings.HasPrefix(g.Pkg.Pkg.Path(), modPath) {
		return Val{}, false
	}
	var initVal *ssa.Const
	stores := 0
	for _, sp := range e.spkg {
		if !strings.HasPrefix(sp.Pkg.Path(), modPath) {
			continue
		}
		// unexported globals can only be written in their own package
		if !g.Object().Exported() && sp != g.Pkg {
			continue
		}
		for _, m := range sp.Members {
			fn, ok := m.(*ssa.Function)
			if !ok {
				continue
			}
			e.scanStores(fn, g, &stores, &initVal)
		}
		// methods
		for _, m := range sp.Members {
			if tn, ok := m.(*ssa.Type); ok {
				for _, T := range []types.Type{tn.Type(), types.NewPointer(tn.Type())} {
					ms := e.prog.MethodSets.MethodSet(T)
					for i := 0; i < ms.Len(); i++ {
						if fn := e.prog.MethodValue(ms.At(i)); fn != nil && fn.Pkg == sp {
							e.scanStores(fn, g, &stores, &initVal)
						}
					}
				}
			}
		}
	}
	if stores == 1 && initVal != nil {
		v := e.constVal(initVal)
		v.Typ = et
		e.constGlobals[g] = &v
		return v, true
	}
	if stores == 0 {
		v := e.zero(et)
		e.constGlobals[g] = &v
		return v, true
	}
	return Val{}, false
}

// constSliceGlobal: a package-level slice initialised by a literal of constants in the package initialiser and
// never assigned elsewhere (element writes through a copy of the header are not detected: assumption A6). The value
// carries its elements, so membership tests (go2.Contains) are decided.
func (e *Engine) constSliceGlobal(g *ssa.Global) (Val, bool) {
	et := g.Type().(*types.Pointer).Elem()
	sl, ok := et.Underlying().(*types.Slice)
	if !ok || g.Pkg == nil {
		return Val{}, false
	}
	if len(e.layout(sl.Elem())) != 1 {
		return Val{}, false
	}
	initFn := g.Pkg.Func("init")
	if initFn == nil {
		return Val{}, false
	}
	var arr *ssa.Alloc
	nStores := 0
	for _, b := range initFn.Blocks {
		for _, in := range b.Instrs {
			if s, ok := in.(*ssa.Store); ok && s.Addr == ssa.Value(g) {
				nStores++
				val := s.Val
				// naive form: the literal is first stored in a temporary and loaded again
				if u, ok := val.(*ssa.UnOp); ok && u.Op == token.MUL {
					if tmp, ok := u.X.(*ssa.Alloc); ok {
						for _, b2 := range initFn.Blocks {
							for _, in2 := range b2.Instrs {
								if s2, ok := in2.(*ssa.Store); ok && s2.Addr == ssa.Value(tmp) {
									val = s2.Val
								}
							}
						}
					}
				}
				if slc, ok := val.(*ssa.Slice); ok && slc.Low == nil && slc.High == nil {
					if al, ok := slc.X.(*ssa.Alloc); ok {
						arr = al
					}
				}
			}
		}
	}
	if arr == nil || nStores != 1 {
		return Val{}, false
	}
	// no other assignment of the variable in its package (exported variables: other packages are not scanned)
	stores := 0
	var dummy *ssa.Const
	for _, m := range g.Pkg.Members {
		if fn, ok := m.(*ssa.Function); ok && fn != initFn {
			e.scanStores(fn, g, &stores, &dummy)
		}
	}
	if stores != 0 {
		return Val{}, false
	}
	at, ok := arr.Type().(*types.Pointer).Elem().Underlying().(*types.Array)
	if !ok || at.Len() > 256 {
		return Val{}, false
	}
	elems := make([]Val, at.Len())
	filled := 0
	for _, b := range initFn.Blocks {
		for _, in := range b.Instrs {
			s, ok := in.(*ssa.Store)
			if !ok {
				continue
			}
			ia, ok := s.Addr.(*ssa.IndexAddr)
			if !ok || ia.X != ssa.Value(arr) {
				continue
			}
			ic, ok1 := ia.Index.(*ssa.Const)
			vc, ok2 := s.Val.(*ssa.Const)
			if !ok1 || !ok2 {
				return Val{}, false
			}
			k := int(ic.Int64())
			if k < 0 || k >= len(elems) {
				return Val{}, false
			}
			elems[k] = e.constVal(vc)
			elems[k].Typ = sl.Elem()
			filled++
		}
	}
	if filled != len(elems) {
		return Val{}, false
	}
	n := intLit(int64(len(elems)))
	ref := e.cur.log.declConst("g.arr."+sanitize(g.Pkg.Pkg.Name()+"."+g.Name()), SInt)
	e.cur.log.assert(app(SBool, ">", ref, intLit(0)))
	if e.cur.discovery == 0 {
		e.cur.externsUsed["A6 constant package slice: "+g.Pkg.Pkg.Name()+"."+g.Name()] = true
	}
	return Val{Typ: et, T: []Term{ref, intLit(0), n, n}, Ext: &KnownSlice{Elems: elems}}, true
}

func (e *Engine) scanStores(fn *ssa.Function, g *ssa.Global, stores *int, initVal **ssa.Const) {
	var visit func(f *ssa.Function)
	visit = func(f *ssa.Function) {
		for _, b := range f.Blocks {
			for _, in := range b.Instrs {
				switch x := in.(type) {
				case *ssa.Store:
					if rootGlobal(x.Addr) == g {
						*stores++
						if c, ok := x.Val.(*ssa.Const); ok && f.Name() == "init" && x.Addr == ssa.Value(g) {
							*initVal = c
						} else {
							*stores += 100
						}
					}
				default:
					// address taken (passed along)? any other use of g as operand except load
					for _, op := range in.Operands(nil) {
						if *op == ssa.Value(g) {
							if u, ok := in.(*ssa.UnOp); ok && u.Op == token.MUL {
								continue
							}
							if _, ok := in.(*ssa.FieldAddr); ok {
								continue
							}
							if _, ok := in.(*ssa.IndexAddr); ok {
								continue
							}
							*stores += 100
						}
					}
				}
			}
		}
		for _, an := range f.AnonFuncs {
			visit(an)
		}
	}
	visit(fn)
}

func rootGlobal(v ssa.Value) *ssa.Global {
	for {
		switch x := v.(type) {
		case *ssa.Global:
			return x
		case *ssa.FieldAddr:
			v = x.X
		case *ssa.IndexAddr:
			v = x.X
		default:
			return nil
		}
	}
}

// ---------------------------------------------------------------------------------------------

func (a *act) runDefers(st *State, reach Term) *State {
	e := a.e
	if len(a.defers) == 0 {
		return nil
	}
	cur := st
	for i := len(a.defers) - 1; i >= 0; i-- {
		d := a.defers[i]
		g := d.guard
		// only defers whose guard can hold together with reach matter; run the call on a copy and merge
		after := cur.clone()
		_, after2 := a.callValue(d.instr, d.instr.Common(), d.fnVal, d.args, after, and(reach, g))
		if after2 != nil {
			after = after2
		}
		if g.S == reach.S || g.S == "true" {
			cur = after
			continue
		}
		cur = e.merge([]inEdge{{and(reach, g), after}, {and(reach, not(g)), cur}})
	}
	return cur
}

// topFn: the function of the verification unit this activation belongs to (the outermost caller).
func (a *act) topFn() *ssa.Function {
	p := a
	for p.caller != nil {
		p = p.caller
	}
	return p.fn
}

// bitOpConst: bitwise operation with a small non-negative constant operand, as integer arithmetic. Bit k of an
// integer x (two's complement, any sign) is (x div 2^k) mod 2 with SMT-LIB's floor division, so
//   x & c  = sum over the set bits k of c of 2^k * bit_k(x)          x &^ c = x - (x & c)
//   x | c  = x + c - (x & c)                                        x ^ c  = x + c - 2*(x & c)
//   x >> k = x div 2^k
// Exact for mathematical integers, hence for every Go integer type whose result fits (masks and shifts right never
// leave the operand's range). Constants with more than 8 set bits stay uninterpreted.
func bitOpConst(op token.Token, lt, rt Term) (Term, bool) {
	lit := func(t Term) (int64, bool) {
		if !isIntLit(t.S) || len(t.S) > 15 {
			return 0, false
		}
		var v int64
		fmt.Sscanf(t.S, "%d", &v)
		return v, true
	}
	if op == token.SHR {
		if k, ok := lit(rt); ok && k < 62 {
			return app(SInt, "div", lt, intLit(int64(1)<<uint(k))), true
		}
		return Term{}, false
	}
	x, c, ok := lt, int64(0), false
	if v, isl := lit(rt); isl {
		c, ok = v, true
	} else if v, isl := lit(lt); isl && op != token.AND_NOT {
		x, c, ok = rt, v, true // commutative operations
	}
	if !ok || op == token.SHL {
		return Term{}, false
	}
	var parts []Term
	n := 0
	for k := uint(0); k < 62; k++ {
		if c&(int64(1)<<k) != 0 {
			n++
			bit := app(SInt, "mod", app(SInt, "div", x, intLit(int64(1)<<k)), intLit(2))
			parts = append(parts, app(SInt, "*", intLit(int64(1)<<k), bit))
		}
	}
	if n > 8 {
		return Term{}, false
	}
	masked := intLit(0)
	if len(parts) == 1 {
		masked = parts[0]
	} else if len(parts) > 1 {
		masked = app(SInt, "+", parts...)
	}
	switch op {
	case token.AND:
		return masked, true
	case token.AND_NOT:
		return app(SInt, "-", x, masked), true
	case token.OR:
		return app(SInt, "-", app(SInt, "+", x, intLit(c)), masked), true
	case token.XOR:
		return app(SInt, "-", app(SInt, "+", x, intLit(c)), app(SInt, "*", intLit(2), masked)), true
	}
	return Term{}, false
}
