package main

// Parser for the //@ contract language: clause structure and spec expressions.

import (
	"fmt"
	"os"
	"strconv"
	"strings"
	"unicode"
)

// ---------------------------------------------------------------------------------------------
// Expressions

type Expr struct {
	Op    string // ident lit.int lit.float lit.str lit.char lit.bool nil binop unop sel tupsel index slice call old forall exists cond in result dollar
	Name  string // ident / selector field / operator / call name
	Str   string // string literal value
	Args  []*Expr
	Binds []Binder
	Src   string
}

type Binder struct {
	Name string
	Type string
}

type tok struct {
	kind string // id num str char op eof
	text string
	pos  int
}

type lexer struct {
	src  string
	toks []tok
	p    int
}

var ops3 = []string{"<==>", "==>", "::", "&&", "||", "==", "!=", "<=", ">=", "<<", ">>", "&^"}

func lex(src string) ([]tok, error) {
	var toks []tok
	i := 0
	for i < len(src) {
		c := src[i]
		switch {
		case c == ' ' || c == '\t' || c == '\n' || c == '\r':
			i++
		case c == '"':
			j := i + 1
			for j < len(src) && src[j] != '"' {
				if src[j] == '\\' {
					j++
				}
				j++
			}
			if j >= len(src) {
				return nil, fmt.Errorf("unterminated string at %d", i)
			}
			toks = append(toks, tok{"str", src[i : j+1], i})
			i = j + 1
		case c == '`':
			j := strings.IndexByte(src[i+1:], '`')
			if j < 0 {
				return nil, fmt.Errorf("unterminated raw string at %d", i)
			}
			toks = append(toks, tok{"str", src[i : i+j+2], i})
			i += j + 2
		case c == '\'':
			j := i + 1
			for j < len(src) && src[j] != '\'' {
				if src[j] == '\\' {
					j++
				}
				j++
			}
			toks = append(toks, tok{"char", src[i : j+1], i})
			i = j + 1
		case c >= '0' && c <= '9':
			j := i
			for j < len(src) && (isIdentChar(src[j]) || (src[j] == '.' && j+1 < len(src) && src[j+1] >= '0' && src[j+1] <= '9' && !strings.Contains(src[i:j], "."))) {
				j++
			}
			// Go float literal with a trailing dot ("2.", "100."): the dot is not followed by an identifier
			if j < len(src) && src[j] == '.' && !strings.Contains(src[i:j], ".") && (j+1 >= len(src) || !(isIdentStart(src[j+1]) || src[j+1] == '(')) && (i == 0 || src[i-1] != '.') {
				toks = append(toks, tok{"num", src[i:j] + ".0", i})
				i = j + 1
				continue
			}
			toks = append(toks, tok{"num", src[i:j], i})
			i = j
		case isIdentStart(c) || c == '$':
			j := i + 1
			for j < len(src) && isIdentChar(src[j]) {
				j++
			}
			toks = append(toks, tok{"id", src[i:j], i})
			i = j
		default:
			matched := false
			for _, o := range ops3 {
				if strings.HasPrefix(src[i:], o) {
					toks = append(toks, tok{"op", o, i})
					i += len(o)
					matched = true
					break
				}
			}
			if !matched {
				toks = append(toks, tok{"op", string(c), i})
				i++
			}
		}
	}
	toks = append(toks, tok{"eof", "", len(src)})
	return toks, nil
}

func isIdentStart(c byte) bool { return c == '_' || unicode.IsLetter(rune(c)) }
func isIdentChar(c byte) bool  { return c == '_' || c == '$' || unicode.IsLetter(rune(c)) || unicode.IsDigit(rune(c)) }

type parser struct {
	src  string
	toks []tok
	p    int
}

func parseExpr(src string) (e *Expr, err error) {
	toks, err := lex(src)
	if err != nil {
		return nil, err
	}
	ps := &parser{src: src, toks: toks}
	defer func() {
		if r := recover(); r != nil {
			if pe, ok := r.(parseErr); ok {
				err = fmt.Errorf("%s in %q", string(pe), src)
				return
			}
			panic(r)
		}
	}()
	e = ps.quant()
	if ps.peek().kind != "eof" {
		ps.fail("unexpected %q", ps.peek().text)
	}
	return e, nil
}

type parseErr string

func (ps *parser) fail(f string, a ...any) { panic(parseErr(fmt.Sprintf(f, a...))) }
func (ps *parser) peek() tok                { return ps.toks[ps.p] }
func (ps *parser) next() tok                { t := ps.toks[ps.p]; ps.p++; return t }
func (ps *parser) isOp(s string) bool       { t := ps.peek(); return t.kind == "op" && t.text == s }
func (ps *parser) isID(s string) bool       { t := ps.peek(); return t.kind == "id" && t.text == s }
func (ps *parser) expectOp(s string) {
	if !ps.isOp(s) {
		ps.fail("expected %q, got %q", s, ps.peek().text)
	}
	ps.p++
}

func (ps *parser) quant() *Expr {
	if ps.isID("forall") || ps.isID("exists") {
		q := ps.next().text
		var bs []Binder
		for {
			name := ps.next()
			if name.kind != "id" {
				ps.fail("binder name expected")
			}
			// type: tokens up to ',' or '::'
			var ty strings.Builder
			for !ps.isOp(",") && !ps.isOp("::") {
				if ps.peek().kind == "eof" {
					ps.fail("'::' expected in quantifier")
				}
				ty.WriteString(ps.next().text)
			}
			bs = append(bs, Binder{name.text, ty.String()})
			if ps.isOp(",") {
				ps.p++
				continue
			}
			break
		}
		ps.expectOp("::")
		body := ps.quant()
		// binders declared without type inherit the next declared type (i, j int)
		for i := len(bs) - 2; i >= 0; i-- {
			if bs[i].Type == "" {
				bs[i].Type = bs[i+1].Type
			}
		}
		return &Expr{Op: q, Binds: bs, Args: []*Expr{body}}
	}
	return ps.iff()
}

func (ps *parser) iff() *Expr {
	l := ps.impl()
	for ps.isOp("<==>") {
		ps.p++
		r := ps.impl()
		l = &Expr{Op: "binop", Name: "<==>", Args: []*Expr{l, r}}
	}
	return l
}

func (ps *parser) impl() *Expr {
	l := ps.cond()
	if ps.isOp("==>") {
		ps.p++
		var r *Expr
		if ps.isID("forall") || ps.isID("exists") {
			r = ps.quant()
		} else {
			r = ps.impl()
		}
		return &Expr{Op: "binop", Name: "==>", Args: []*Expr{l, r}}
	}
	return l
}

func (ps *parser) cond() *Expr {
	c := ps.orE()
	if ps.isOp("?") {
		ps.p++
		a := ps.cond()
		ps.expectOp(":")
		b := ps.cond()
		return &Expr{Op: "cond", Args: []*Expr{c, a, b}}
	}
	return c
}

func (ps *parser) orE() *Expr {
	l := ps.andE()
	for ps.isOp("||") {
		ps.p++
		r := ps.andE()
		l = &Expr{Op: "binop", Name: "||", Args: []*Expr{l, r}}
	}
	return l
}

func (ps *parser) andE() *Expr {
	l := ps.cmp()
	for ps.isOp("&&") {
		ps.p++
		r := ps.cmp()
		l = &Expr{Op: "binop", Name: "&&", Args: []*Expr{l, r}}
	}
	return l
}

func (ps *parser) cmp() *Expr {
	l := ps.add()
	for {
		t := ps.peek()
		if t.kind == "op" && (t.text == "==" || t.text == "!=" || t.text == "<" || t.text == "<=" || t.text == ">" || t.text == ">=") {
			ps.p++
			r := ps.add()
			l = &Expr{Op: "binop", Name: t.text, Args: []*Expr{l, r}}
			continue
		}
		if t.kind == "id" && t.text == "in" {
			ps.p++
			ps.expectOp("{")
			var elems []*Expr
			for !ps.isOp("}") {
				elems = append(elems, ps.cond())
				if ps.isOp(",") {
					ps.p++
				}
			}
			ps.expectOp("}")
			l = &Expr{Op: "in", Args: append([]*Expr{l}, elems...)}
			continue
		}
		return l
	}
}

func (ps *parser) add() *Expr {
	l := ps.mul()
	for ps.isOp("+") || ps.isOp("-") {
		o := ps.next().text
		r := ps.mul()
		l = &Expr{Op: "binop", Name: o, Args: []*Expr{l, r}}
	}
	return l
}

func (ps *parser) mul() *Expr {
	l := ps.unary()
	for ps.isOp("*") || ps.isOp("/") || ps.isOp("%") {
		o := ps.next().text
		r := ps.unary()
		l = &Expr{Op: "binop", Name: o, Args: []*Expr{l, r}}
	}
	return l
}

func (ps *parser) unary() *Expr {
	if ps.isOp("!") || ps.isOp("-") || ps.isOp("*") || ps.isOp("&") {
		o := ps.next().text
		x := ps.unary()
		return &Expr{Op: "unop", Name: o, Args: []*Expr{x}}
	}
	return ps.postfix()
}

func (ps *parser) postfix() *Expr {
	e := ps.primary()
	for {
		switch {
		case ps.isOp("."):
			ps.p++
			t := ps.next()
			if t.kind == "num" {
				e = &Expr{Op: "tupsel", Name: t.text, Args: []*Expr{e}}
			} else if t.kind == "id" {
				e = &Expr{Op: "sel", Name: t.text, Args: []*Expr{e}}
			} else if t.kind == "op" && t.text == "(" {
				// type assertion x.(T): type text until ')'
				var ty strings.Builder
				depth := 1
				for {
					tt := ps.next()
					if tt.kind == "eof" {
						ps.fail("unterminated type assertion")
					}
					if tt.kind == "op" && tt.text == "(" {
						depth++
					}
					if tt.kind == "op" && tt.text == ")" {
						depth--
						if depth == 0 {
							break
						}
					}
					ty.WriteString(tt.text)
				}
				e = &Expr{Op: "assert", Name: ty.String(), Args: []*Expr{e}}
			} else {
				ps.fail("selector expected after '.'")
			}
		case ps.isOp("["):
			ps.p++
			if ps.isOp(":") {
				ps.p++
				hi := ps.cond()
				ps.expectOp("]")
				e = &Expr{Op: "slice", Args: []*Expr{e, nil, hi}}
				continue
			}
			i := ps.cond()
			if ps.isOp(":") {
				ps.p++
				var hi *Expr
				if !ps.isOp("]") {
					hi = ps.cond()
				}
				ps.expectOp("]")
				e = &Expr{Op: "slice", Args: []*Expr{e, i, hi}}
				continue
			}
			ps.expectOp("]")
			e = &Expr{Op: "index", Args: []*Expr{e, i}}
		case ps.isOp("("):
			ps.p++
			var args []*Expr
			for !ps.isOp(")") {
				args = append(args, ps.quant())
				if ps.isOp(",") {
					ps.p++
				} else if !ps.isOp(")") {
					ps.fail("',' or ')' expected in call, got %q", ps.peek().text)
				}
			}
			ps.expectOp(")")
			if e.Op == "ident" && e.Name == "old" {
				if len(args) != 1 {
					ps.fail("old takes one argument")
				}
				e = &Expr{Op: "old", Args: args}
			} else {
				e = &Expr{Op: "call", Args: append([]*Expr{e}, args...)}
			}
		default:
			return e
		}
	}
}

func (ps *parser) primary() *Expr {
	t := ps.next()
	switch t.kind {
	case "id":
		switch t.text {
		case "true", "false":
			return &Expr{Op: "lit.bool", Name: t.text}
		case "nil":
			return &Expr{Op: "nil"}
		}
		if strings.HasPrefix(t.text, "$") {
			return &Expr{Op: "dollar", Name: t.text[1:]}
		}
		return &Expr{Op: "ident", Name: t.text}
	case "num":
		if strings.ContainsAny(t.text, ".") || (strings.ContainsAny(t.text, "eE") && !strings.HasPrefix(t.text, "0x")) {
			return &Expr{Op: "lit.float", Name: t.text}
		}
		return &Expr{Op: "lit.int", Name: t.text}
	case "str":
		s, err := strconv.Unquote(t.text)
		if err != nil {
			ps.fail("bad string literal %s", t.text)
		}
		return &Expr{Op: "lit.str", Str: s}
	case "char":
		r, _, _, err := strconv.UnquoteChar(t.text[1:len(t.text)-1], '\'')
		if err != nil {
			ps.fail("bad char literal %s", t.text)
		}
		return &Expr{Op: "lit.int", Name: strconv.Itoa(int(r))}
	case "op":
		if t.text == "(" {
			e := ps.quant()
			ps.expectOp(")")
			return e
		}
	}
	ps.fail("unexpected %q", t.text)
	return nil
}

func (e *Expr) String() string {
	if e == nil {
		return ""
	}
	switch e.Op {
	case "ident":
		return e.Name
	case "dollar":
		return "$" + e.Name
	case "lit.int", "lit.float", "lit.bool":
		return e.Name
	case "lit.str":
		return strconv.Quote(e.Str)
	case "nil":
		return "nil"
	case "binop":
		return "(" + e.Args[0].String() + " " + e.Name + " " + e.Args[1].String() + ")"
	case "unop":
		return e.Name + e.Args[0].String()
	case "sel":
		return e.Args[0].String() + "." + e.Name
	case "tupsel":
		return e.Args[0].String() + "." + e.Name
	case "index":
		return e.Args[0].String() + "[" + e.Args[1].String() + "]"
	case "slice":
		return e.Args[0].String() + "[" + e.Args[1].String() + ":" + e.Args[2].String() + "]"
	case "call":
		var as []string
		for _, a := range e.Args[1:] {
			as = append(as, a.String())
		}
		return e.Args[0].String() + "(" + strings.Join(as, ", ") + ")"
	case "old":
		return "old(" + e.Args[0].String() + ")"
	case "cond":
		return "(" + e.Args[0].String() + " ? " + e.Args[1].String() + " : " + e.Args[2].String() + ")"
	case "forall", "exists":
		var bs []string
		for _, b := range e.Binds {
			bs = append(bs, b.Name+" "+b.Type)
		}
		return "(" + e.Op + " " + strings.Join(bs, ", ") + " :: " + e.Args[0].String() + ")"
	case "in":
		var as []string
		for _, a := range e.Args[1:] {
			as = append(as, a.String())
		}
		return e.Args[0].String() + " in {" + strings.Join(as, ", ") + "}"
	case "assert":
		return e.Args[0].String() + ".(" + e.Name + ")"
	}
	return "?" + e.Op
}

// ---------------------------------------------------------------------------------------------
// Contract files

type Clause struct {
	Label string
	Text  string
	E     *Expr
	Line  int
	Props []string // non-empty: obligation only when checking one of these properties
}

type LoopSpec struct {
	Anchor     string // normalised header text, or "#k"
	Invariants []*Clause
	Decreases  *Clause
	Line       int
}

type CallSpec struct {
	Callee  string // e.g. fmt.Sprintf
	Ordinal int    // 1-based
	Asserts []*Clause
	Line    int
}

type FuncSpec struct {
	Name     string // Func or Type.Method or Func$1 (package-relative)
	Pkg      string // import path
	Props    []string
	Requires []*Clause
	Ensures  []*Clause
	Modifies []*Clause
	Panics   []*Clause // panics when <cond>
	Lets     []*LetSpec
	Pure     bool
	PureArgs bool // result depends on the argument values only (not on the heap)
	Inline   bool
	Opaque   bool
	Trusted  bool // contract assumed at call sites, body not verified (listed as assumption)
	NoBody   bool
	NoFrame  bool
	Cheap    bool // package sweep: obligations get only the short focused query; generator failures are not errors
	IEEE     bool
	Sweep    map[string]bool
	Reads    []string
	Loops    []*LoopSpec
	Calls    []*CallSpec
	File     string
	Line     int

	GhostSets []*GhostSet
	// TrustFrame: `trustframe` — the declared frame (possibly empty) is assumed at call sites without being checked
	TrustFrame bool
}

// GhostSet: `ghostset g(x) = e`.
type GhostSet struct {
	Target *Clause // g(x)
	Val    *Clause
}

type LetSpec struct {
	Name string
	C    *Clause
}

type SpecFunc struct {
	Name   string
	Params []Binder
	Ret    string
	Body   *Clause   // may be nil (uninterpreted)
	Axioms []*Clause // axioms over it (instantiated for the actual arguments of each use)
	Reads  []string  // heap families an uninterpreted spec function depends on
	Ghost  bool      // ghost state attached to an object (one heap family G_<name>); Body = value at allocation
	Pkg    string
	Line   int
}

type LemmaSpec struct {
	Name     string
	Params   []Binder
	Requires []*Clause
	Ensures  []*Clause
	Props    []string
	Pkg      string
	Line     int
}

type ExternSpec struct {
	Name     string // full name e.g. strings.Contains or (*bufio.Reader).Peek
	Pure     bool
	Heap     bool // pure, but a function of the arguments AND the heap content
	Requires []*Clause
	Ensures  []*Clause
	Modifies []*Clause
	Line     int
	File     string
}

type ContractFile struct {
	Path    string
	Pkg     string
	Funcs   []*FuncSpec
	Specs   []*SpecFunc
	Lemmas  []*LemmaSpec
	Externs []*ExternSpec
	PkgSweep *PkgSweep
}

type PkgSweep struct {
	Kinds map[string]bool
	Props []string
}

var clauseKeywords = map[string]bool{
	"func": true, "requires": true, "ensures": true, "modifies": true, "pure": true, "inline": true, "opaque": true,
	"panics": true, "floats": true, "loop": true, "invariant": true, "decreases": true, "at": true, "assert": true,
	"spec": true, "ghost": true, "sweep-package": true, "lemma": true, "extern": true, "props": true, "let": true, "trusted": true, "axiom": true, "nobody": true, "sweep": true, "reads": true, "noframe": true, "ghostset": true, "trustframe": true,
}

type rawClause struct {
	kw   string
	text string
	line int
}

func readRawClauses(path string) ([]rawClause, error) {
	data, err := os.ReadFile(path)
	if err != nil {
		return nil, err
	}
	var out []rawClause
	for i, ln := range strings.Split(string(data), "\n") {
		s := strings.TrimSpace(ln)
		if !strings.HasPrefix(s, "//@") {
			continue
		}
		s = strings.TrimSpace(s[3:])
		// strip trailing comment " // ..." (not inside a string)
		s = stripTrailingComment(s)
		if s == "" {
			continue
		}
		first := s
		rest := ""
		if j := strings.IndexAny(s, " \t"); j >= 0 {
			first, rest = s[:j], strings.TrimSpace(s[j+1:])
		}
		if clauseKeywords[first] {
			out = append(out, rawClause{first, rest, i + 1})
		} else if len(out) > 0 {
			out[len(out)-1].text += " " + s
		} else {
			return nil, fmt.Errorf("%s:%d: continuation without clause", path, i+1)
		}
	}
	return out, nil
}

func stripTrailingComment(s string) string {
	inStr := byte(0)
	for i := 0; i+1 < len(s); i++ {
		c := s[i]
		if inStr != 0 {
			if c == '\\' {
				i++
			} else if c == inStr {
				inStr = 0
			}
			continue
		}
		if c == '"' || c == '`' || c == '\'' {
			inStr = c
			continue
		}
		if c == '/' && s[i+1] == '/' {
			return strings.TrimSpace(s[:i])
		}
	}
	return s
}

func mkClause(rc rawClause, path string) (*Clause, error) {
	text := rc.text
	label := ""
	if strings.HasPrefix(text, "[") {
		if j := strings.Index(text, "]"); j > 0 {
			label = strings.TrimSpace(text[1:j])
			text = strings.TrimSpace(text[j+1:])
		}
	}
	// "[label @C21,C27]": the clause is an obligation only for those properties
	var props []string
	if k := strings.Index(label, "@"); k >= 0 {
		for _, p := range strings.FieldsFunc(label[k+1:], func(r rune) bool { return r == ',' || r == ' ' }) {
			props = append(props, p)
		}
		label = strings.TrimSpace(label[:k])
	}
	e, err := parseExpr(text)
	if err != nil {
		return nil, fmt.Errorf("%s:%d: %v", path, rc.line, err)
	}
	if label == "" {
		label = shortLabel(text)
	}
	return &Clause{Label: label, Text: text, E: e, Line: rc.line, Props: props}, nil
}

func shortLabel(text string) string {
	t := strings.Join(strings.Fields(text), " ")
	if len(t) > 70 {
		t = t[:70]
	}
	return t
}

func parseParams(s string) []Binder {
	var bs []Binder
	for _, p := range strings.Split(s, ",") {
		p = strings.TrimSpace(p)
		if p == "" {
			continue
		}
		f := strings.Fields(p)
		b := Binder{Name: f[0]}
		if len(f) > 1 {
			b.Type = strings.Join(f[1:], "")
		}
		bs = append(bs, b)
	}
	for i := len(bs) - 2; i >= 0; i-- {
		if bs[i].Type == "" {
			bs[i].Type = bs[i+1].Type
		}
	}
	return bs
}

func parseContractFile(path, pkg string) (*ContractFile, error) {
	raws, err := readRawClauses(path)
	if err != nil {
		return nil, err
	}
	cf := &ContractFile{Path: path, Pkg: pkg}
	var fn *FuncSpec
	var loop *LoopSpec
	var call *CallSpec
	var sf *SpecFunc
	var lem *LemmaSpec
	var ext *ExternSpec
	reset := func() { fn, loop, call, sf, lem, ext = nil, nil, nil, nil, nil, nil }
	for _, rc := range raws {
		errf := func(f string, a ...any) error {
			return fmt.Errorf("%s:%d: %s", path, rc.line, fmt.Sprintf(f, a...))
		}
		switch rc.kw {
		case "func":
			reset()
			f := strings.Fields(rc.text)
			if len(f) == 0 {
				return nil, errf("func needs a name")
			}
			fn = &FuncSpec{Name: f[0], Pkg: pkg, File: path, Line: rc.line}
			for _, x := range f[1:] {
				x = strings.Trim(x, "[]")
				for _, p := range strings.Split(x, ",") {
					if p != "" {
						fn.Props = append(fn.Props, p)
					}
				}
			}
			cf.Funcs = append(cf.Funcs, fn)
		case "props":
			ps := strings.FieldsFunc(rc.text, func(r rune) bool { return r == ',' || r == ' ' })
			if fn != nil {
				fn.Props = append(fn.Props, ps...)
			} else if lem != nil {
				lem.Props = append(lem.Props, ps...)
			}
		case "spec", "ghost":
			reset()
			// spec func name(params) T [= expr]     |     ghost name(x T) R [= default]
			t := strings.TrimSpace(strings.TrimPrefix(rc.text, "func"))
			lp := strings.Index(t, "(")
			rp := matchParen(t, lp)
			if lp < 0 || rp < 0 {
				return nil, errf("bad spec func")
			}
			sf = &SpecFunc{Name: strings.TrimSpace(t[:lp]), Params: parseParams(t[lp+1 : rp]), Pkg: pkg, Line: rc.line, Ghost: rc.kw == "ghost"}
			rest := strings.TrimSpace(t[rp+1:])
			if j := strings.Index(rest, "="); j >= 0 {
				sf.Ret = strings.TrimSpace(rest[:j])
				c, err := mkClause(rawClause{"", strings.TrimSpace(rest[j+1:]), rc.line}, path)
				if err != nil {
					return nil, err
				}
				sf.Body = c
			} else {
				sf.Ret = rest
			}
			cf.Specs = append(cf.Specs, sf)
		case "axiom":
			c, err := mkClause(rc, path)
			if err != nil {
				return nil, err
			}
			if sf == nil {
				return nil, errf("axiom outside spec func")
			}
			sf.Axioms = append(sf.Axioms, c)
		case "lemma":
			reset()
			t := rc.text
			lp := strings.Index(t, "(")
			rp := matchParen(t, lp)
			if lp < 0 || rp < 0 {
				return nil, errf("bad lemma")
			}
			lem = &LemmaSpec{Name: strings.TrimSpace(t[:lp]), Params: parseParams(t[lp+1 : rp]), Pkg: pkg, Line: rc.line}
			for _, x := range strings.Fields(t[rp+1:]) {
				lem.Props = append(lem.Props, strings.Split(strings.Trim(x, "[]"), ",")...)
			}
			cf.Lemmas = append(cf.Lemmas, lem)
		case "extern":
			reset()
			f := strings.Fields(rc.text)
			ext = &ExternSpec{Name: f[0], Line: rc.line, File: path}
			for _, x := range f[1:] {
				if x == "pure" {
					ext.Pure = true
				}
				if x == "heap" {
					// `extern X pure heap`: no side effects, but the result depends on the heap (a getter of mutable
					// objects): two calls agree only when nothing was written in between
					ext.Heap = true
				}
			}
			cf.Externs = append(cf.Externs, ext)
		case "requires", "ensures", "modifies":
			if rc.kw == "modifies" {
				// several targets separated by top-level commas
				parts := splitTopLevel(rc.text)
				if len(parts) > 1 {
					var tgt *[]*Clause
					switch {
					case fn != nil:
						tgt = &fn.Modifies
					case ext != nil:
						tgt = &ext.Modifies
					default:
						return nil, errf("modifies outside func/extern")
					}
					for _, p := range parts {
						c, err := mkClause(rawClause{"modifies", p, rc.line}, path)
						if err != nil {
							return nil, err
						}
						*tgt = append(*tgt, c)
					}
					continue
				}
			}
			c, err := mkClause(rc, path)
			if err != nil {
				return nil, err
			}
			var req, ens, mod *[]*Clause
			switch {
			case fn != nil:
				req, ens, mod = &fn.Requires, &fn.Ensures, &fn.Modifies
			case lem != nil:
				var dummy []*Clause
				req, ens, mod = &lem.Requires, &lem.Ensures, &dummy
			case ext != nil:
				req, ens, mod = &ext.Requires, &ext.Ensures, &ext.Modifies
			default:
				return nil, errf("%s outside func/lemma/extern", rc.kw)
			}
			switch rc.kw {
			case "requires":
				*req = append(*req, c)
			case "ensures":
				*ens = append(*ens, c)
			case "modifies":
				*mod = append(*mod, c)
			}
		case "ghostset":
			// ghostset g(x) = e : the function sets the ghost state g of object x to e when it returns (e is read in the
			// exit state; old(...) is the entry state). Ghost state has no executable counterpart, so this clause IS the
			// update: it is applied to the exit state before the ensures clauses are checked, and at call sites g(x)
			// is havocked and then assumed equal to e.
			if fn == nil {
				return nil, errf("ghostset outside func")
			}
			j := strings.Index(rc.text, "=")
			if j < 0 {
				return nil, errf("ghostset needs '='")
			}
			tc, err := mkClause(rawClause{"", strings.TrimSpace(rc.text[:j]), rc.line}, path)
			if err != nil {
				return nil, err
			}
			vc, err := mkClause(rawClause{"", strings.TrimSpace(rc.text[j+1:]), rc.line}, path)
			if err != nil {
				return nil, err
			}
			fn.GhostSets = append(fn.GhostSets, &GhostSet{Target: tc, Val: vc})
		case "let":
			if fn == nil {
				return nil, errf("let outside func")
			}
			j := strings.Index(rc.text, "=")
			if j < 0 {
				return nil, errf("let needs '='")
			}
			c, err := mkClause(rawClause{"", strings.TrimSpace(rc.text[j+1:]), rc.line}, path)
			if err != nil {
				return nil, err
			}
			fn.Lets = append(fn.Lets, &LetSpec{Name: strings.TrimSpace(rc.text[:j]), C: c})
		case "pure":
			if fn != nil {
				fn.Pure = true
				if strings.TrimSpace(rc.text) == "args" {
					fn.PureArgs = true
				}
			} else if ext != nil {
				ext.Pure = true
			}
		case "inline":
			if fn == nil {
				return nil, errf("inline outside func")
			}
			fn.Inline = true
		case "opaque":
			if fn == nil {
				return nil, errf("opaque outside func")
			}
			fn.Opaque = true
		case "trusted":
			if fn == nil {
				return nil, errf("trusted outside func")
			}
			fn.Trusted = true
		case "sweep-package":
			// sweep-package index,slice,panic [C07] [skip Name,Name]: every function of the package without a contract
			// of its own is swept for these panic kinds with no precondition (cheap queries; what does not discharge is
			// simply not claimed)
			reset()
			ps := &PkgSweep{Kinds: map[string]bool{}}
			for _, tk := range strings.Fields(rc.text) {
				if strings.HasPrefix(tk, "[") {
					for _, p := range strings.Split(strings.Trim(tk, "[]"), ",") {
						if p != "" {
							ps.Props = append(ps.Props, p)
						}
					}
					continue
				}
				for _, k := range strings.Split(tk, ",") {
					if k != "" {
						ps.Kinds[k] = true
					}
				}
			}
			cf.PkgSweep = ps
		case "sweep":
			if fn == nil {
				return nil, errf("sweep outside func")
			}
			if fn.Sweep == nil {
				fn.Sweep = map[string]bool{}
			}
			for _, k := range strings.FieldsFunc(rc.text, func(r rune) bool { return r == ',' || r == ' ' }) {
				fn.Sweep[k] = true
			}
		case "reads":
			if fn != nil {
				fn.Reads = append(fn.Reads, strings.FieldsFunc(rc.text, func(r rune) bool { return r == ',' || r == ' ' })...)
			} else if sf != nil {
				sf.Reads = append(sf.Reads, strings.FieldsFunc(rc.text, func(r rune) bool { return r == ',' || r == ' ' })...)
			}
		case "noframe":
			if fn != nil {
				fn.NoFrame = true
			}
		case "trustframe":
			// the function writes nothing that existed before the call except what its modifies clauses name; this is
			// NOT checked against the body (noframe is implied) and is listed in the evidence as an assumption
			if fn != nil {
				fn.NoFrame = true
				fn.TrustFrame = true
			}
		case "nobody":
			if fn == nil {
				return nil, errf("nobody outside func")
			}
			fn.NoBody = true
		case "floats":
			if fn == nil {
				return nil, errf("floats outside func")
			}
			fn.IEEE = strings.TrimSpace(rc.text) == "ieee"
		case "panics":
			if fn == nil {
				return nil, errf("panics outside func")
			}
			t := strings.TrimSpace(strings.TrimPrefix(rc.text, "when"))
			c, err := mkClause(rawClause{"", t, rc.line}, path)
			if err != nil {
				return nil, err
			}
			fn.Panics = append(fn.Panics, c)
		case "loop":
			if fn == nil {
				return nil, errf("loop outside func")
			}
			a := strings.TrimSpace(rc.text)
			if strings.HasPrefix(a, "\"") {
				u, err := strconv.Unquote(a)
				if err != nil {
					return nil, errf("bad loop anchor %s", a)
				}
				a = normalizeSrc(u)
			}
			loop = &LoopSpec{Anchor: a, Line: rc.line}
			call = nil
			fn.Loops = append(fn.Loops, loop)
		case "invariant":
			if loop == nil {
				return nil, errf("invariant outside loop")
			}
			c, err := mkClause(rc, path)
			if err != nil {
				return nil, err
			}
			loop.Invariants = append(loop.Invariants, c)
		case "decreases":
			if loop == nil {
				return nil, errf("decreases outside loop")
			}
			c, err := mkClause(rc, path)
			if err != nil {
				return nil, err
			}
			loop.Decreases = c
		case "at":
			if fn == nil {
				return nil, errf("at outside func")
			}
			// at call fmt.Sprintf#2
			t := strings.TrimSpace(strings.TrimPrefix(rc.text, "call"))
			name, ord := t, 1
			if j := strings.LastIndex(t, "#"); j >= 0 {
				name = t[:j]
				ord, _ = strconv.Atoi(t[j+1:])
			}
			call = &CallSpec{Callee: strings.TrimSpace(name), Ordinal: ord, Line: rc.line}
			loop = nil
			fn.Calls = append(fn.Calls, call)
		case "assert":
			if call == nil {
				return nil, errf("assert outside 'at call'")
			}
			c, err := mkClause(rc, path)
			if err != nil {
				return nil, err
			}
			call.Asserts = append(call.Asserts, c)
		}
	}
	return cf, nil
}

// splitTopLevel splits at commas that are not nested in parentheses, brackets or braces.
func splitTopLevel(s string) []string {
	var out []string
	d := 0
	start := 0
	for i := 0; i < len(s); i++ {
		switch s[i] {
		case '(', '[', '{':
			d++
		case ')', ']', '}':
			d--
		case ',':
			if d == 0 {
				out = append(out, strings.TrimSpace(s[start:i]))
				start = i + 1
			}
		}
	}
	out = append(out, strings.TrimSpace(s[start:]))
	return out
}

func matchParen(s string, lp int) int {
	if lp < 0 {
		return -1
	}
	d := 0
	for i := lp; i < len(s); i++ {
		switch s[i] {
		case '(':
			d++
		case ')':
			d--
			if d == 0 {
				return i
			}
		}
	}
	return -1
}

// normalizeSrc removes all whitespace so anchors survive reformatting.
func normalizeSrc(s string) string {
	return strings.Join(strings.Fields(s), "")
}
