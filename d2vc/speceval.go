package main

// Evaluation of spec expressions over symbolic states.

import (
	"fmt"
	"go/constant"
	"go/token"
	"go/types"
	"sort"
	"strconv"
	"strings"

	"golang.org/x/tools/go/ssa"
)

type specEnv struct {
	e        *Engine
	a        *act
	st       *State
	old      *State
	vars     map[string]Val
	results  []Val
	body     bool // identifiers resolve to current values of locals
	at       *ssa.BasicBlock
	loop     *loopInfo
	callArgs []Val
	fnScope  *ssa.Function
	pkg      *ssa.Package
	inBody   bool // call anchor inside a loop body: $i is the current iteration's index
	qdepth   int
	nq       *int
}

func (e *Engine) newEnv(a *act, st *State) *specEnv {
	n := 0
	env := &specEnv{e: e, a: a, st: st, nq: &n}
	if a != nil {
		env.fnScope = a.fn
	}
	return env
}

// entryEnv: requires/ensures of the function being verified: parameter names denote entry values.
func (a *act) entryEnv(st *State) *specEnv {
	env := a.e.newEnv(a, st)
	env.vars = map[string]Val{}
	for _, p := range a.fn.Params {
		env.vars[p.Name()] = a.vals[p]
	}
	return env
}

// bodyEnv: loop invariants / call-site assertions: names denote the current values of locals.
func (a *act) bodyEnv(st *State, at *ssa.BasicBlock) *specEnv {
	env := a.e.newEnv(a, st)
	env.body = true
	env.at = at
	env.old = a.entry
	env.vars = map[string]Val{}
	for k, v := range a.lets {
		env.vars[k] = v
	}
	return env
}

func (env *specEnv) scopePkg() *ssa.Package {
	if env.fnScope != nil {
		return fnPkg(env.fnScope)
	}
	return env.pkg
}

func (env *specEnv) withState(st *State) *specEnv {
	n := *env
	n.st = st
	return &n
}

func (env *specEnv) evalBool(x *Expr) (Term, error) {
	v, err := env.eval(x)
	if err != nil {
		return Term{}, err
	}
	if len(v.T) != 1 || v.T[0].Sort != SBool {
		return Term{}, fmt.Errorf("boolean expected: %s", x)
	}
	return v.T[0], nil
}

var (
	tInt    = types.Typ[types.Int]
	tFloat  = types.Typ[types.Float64]
	tBool   = types.Typ[types.Bool]
	tString = types.Typ[types.String]
)

func boolVal(t Term) Val { return Val{Typ: tBool, T: []Term{t}} }

// capture: while evaluating under a quantifier, well-formedness facts must stay inside the binder.
type capture struct {
	facts []Term
}

func (env *specEnv) eval(x *Expr) (Val, error) {
	e := env.e
	switch x.Op {
	case "lit.int":
		n, err := strconv.ParseInt(x.Name, 0, 64)
		if err != nil {
			return Val{}, fmt.Errorf("bad int %s", x.Name)
		}
		return Val{Typ: types.Typ[types.UntypedInt], T: []Term{intLit(n)}}, nil
	case "lit.float":
		cv := roundFloat64(constant.MakeFromLiteral(x.Name, token.FLOAT, 0))
		return Val{Typ: types.Typ[types.UntypedFloat], T: []Term{realLit(cv)}}, nil
	case "lit.bool":
		if x.Name == "true" {
			return boolVal(tTrue), nil
		}
		return boolVal(tFalse), nil
	case "lit.str":
		return Val{Typ: tString, T: []Term{e.strLit(x.Str)}}, nil
	case "nil":
		return Val{Typ: types.Typ[types.UntypedNil], T: []Term{intLit(0)}}, nil
	case "ident":
		return env.ident(x.Name)
	case "dollar":
		return env.dollar(x.Name)
	case "old":
		if env.old == nil {
			return env.eval(x.Args[0])
		}
		return env.withState(env.old).eval(x.Args[0])
	case "unop":
		if x.Name == "&" {
			// &local: the address of a local variable of the function (a reference when the variable lives on the heap,
			// a local descriptor otherwise)
			if x.Args[0].Op == "ident" && env.a != nil {
				var al *ssa.Alloc
				if env.body {
					al = env.a.allocNamed(x.Args[0].Name, env.at)
				}
				if al == nil {
					al = env.a.allocNamed(x.Args[0].Name, nil)
				}
				if al != nil {
					if pv, ok := env.a.vals[al]; ok {
						return pv, nil
					}
				}
			}
			return Val{}, fmt.Errorf("& needs a local variable of the function: %s", x.Args[0])
		}
		v, err := env.eval(x.Args[0])
		if err != nil {
			return Val{}, err
		}
		switch x.Name {
		case "!":
			if len(v.T) != 1 || v.T[0].Sort != SBool {
				return Val{}, fmt.Errorf("! on non-bool %s", x.Args[0])
			}
			return boolVal(not(v.T[0])), nil
		case "-":
			t := v.T[0]
			return Val{Typ: v.Typ, T: []Term{app(t.Sort, "-", t)}}, nil
		case "*":
			return env.deref(v)
		}
	case "binop":
		return env.binop(x)
	case "cond":
		c, err := env.evalBool(x.Args[0])
		if err != nil {
			return Val{}, err
		}
		l, err := env.eval(x.Args[1])
		if err != nil {
			return Val{}, err
		}
		r, err := env.eval(x.Args[2])
		if err != nil {
			return Val{}, err
		}
		lf, rf := e.flat(l), e.flat(r)
		if len(lf) != len(rf) {
			return Val{}, fmt.Errorf("?: branches differ in shape")
		}
		ts := make([]Term, len(lf))
		for i := range lf {
			ts[i] = ite(c, lf[i], rf[i])
		}
		typ := l.Typ
		if isUntyped(typ) {
			typ = r.Typ
		}
		return Val{Typ: typ, T: ts}, nil
	case "in":
		l, err := env.eval(x.Args[0])
		if err != nil {
			return Val{}, err
		}
		var cs []Term
		for _, a := range x.Args[1:] {
			r, err := env.eval(a)
			if err != nil {
				return Val{}, err
			}
			t, ok := e.valEq(l, r)
			if !ok {
				return Val{}, fmt.Errorf("cannot compare in 'in'")
			}
			cs = append(cs, t)
		}
		return boolVal(or(cs...)), nil
	case "sel":
		return env.selector(x)
	case "tupsel":
		v, err := env.eval(x.Args[0])
		if err != nil {
			return Val{}, err
		}
		k, _ := strconv.Atoi(x.Name)
		if ks, ok := v.Ext.(*KnownSlice); ok && ks != nil && k < len(ks.Elems) {
			return ks.Elems[k], nil
		}
		if tup, ok := v.Typ.(*types.Tuple); ok && k < tup.Len() {
			off := 0
			for i := 0; i < k; i++ {
				off += len(e.layout(tup.At(i).Type()))
			}
			n := len(e.layout(tup.At(k).Type()))
			return Val{Typ: tup.At(k).Type(), T: v.T[off : off+n]}, nil
		}
		if x.Args[0].Op == "ident" && x.Args[0].Name == "result" && k < len(env.results) {
			return env.results[k], nil
		}
		return Val{}, fmt.Errorf("bad tuple selector %s", x)
	case "index":
		return env.index(x)
	case "call":
		return env.call(x)
	case "forall", "exists":
		return env.quant(x)
	case "assert":
		v, err := env.eval(x.Args[0])
		if err != nil {
			return Val{}, err
		}
		t, err := env.parseType(x.Name)
		if err != nil {
			return Val{}, err
		}
		f := e.flat(v)
		if len(f) != 2 {
			return Val{}, fmt.Errorf("type assertion on non-interface")
		}
		return e.unbox(f[1], t, env.st), nil
	}
	return Val{}, fmt.Errorf("unsupported spec expression %s", x)
}

// fmtVerbPrefix returns the literal text preceding the k-th (0-based) formatting verb of a format string.
func fmtVerbPrefix(format string, k int) (string, bool) {
	n := 0
	last := 0
	for i := 0; i < len(format); i++ {
		if format[i] != '%' {
			continue
		}
		if i+1 < len(format) && format[i+1] == '%' {
			i++
			continue
		}
		// verb: flags/width/precision then a letter
		j := i + 1
		for j < len(format) && !((format[j] >= 'a' && format[j] <= 'z') || (format[j] >= 'A' && format[j] <= 'Z')) {
			j++
		}
		if n == k {
			return format[last:i], true
		}
		n++
		last = j + 1
		i = j
	}
	return "", false
}

// roundFloat64 rounds a constant to the nearest float64, as Go does when an untyped constant meets a float64.
func roundFloat64(cv constant.Value) constant.Value {
	f, _ := constant.Float64Val(constant.ToFloat(cv))
	return constant.MakeFloat64(f)
}

func isUntyped(t types.Type) bool {
	b, ok := t.(*types.Basic)
	return ok && b.Info()&types.IsUntyped != 0
}

func (env *specEnv) deref(v Val) (Val, error) {
	if env.a == nil {
		return Val{}, fmt.Errorf("deref without activation")
	}
	if _, ok := v.Typ.Underlying().(*types.Pointer); !ok {
		return Val{}, fmt.Errorf("deref of non-pointer %v", v.Typ)
	}
	return env.load(v), nil
}

// load reads through a pointer without generating obligations.
func (env *specEnv) load(ptr Val) Val {
	a := env.a
	pt := ptr.Typ.Underlying().(*types.Pointer)
	if lp, ok := ptr.Ext.(*LocPtr); ok && lp != nil {
		return env.loadLoc(lp, pt.Elem())
	}
	if ptr.T == nil {
		return a.e.freshVal("load", pt.Elem(), env.st)
	}
	return env.loadLoc(&LocPtr{Kind: pkHeap, Base: ptr.T[0], BaseType: pt.Elem()}, pt.Elem())
}

func (env *specEnv) loadLoc(lp *LocPtr, et types.Type) Val {
	return env.a.loadLoc(lp, et, env.st)
}

func (env *specEnv) ident(name string) (Val, error) {
	e := env.e
	if v, ok := env.vars[name]; ok {
		return v, nil
	}
	if name == "result" {
		if len(env.results) == 1 {
			return env.results[0], nil
		}
		if len(env.results) > 1 {
			var ts []Term
			for _, r := range env.results {
				ts = append(ts, e.flat(r)...)
			}
			return Val{Typ: types.NewTuple(), T: ts, Ext: &KnownSlice{Elems: env.results}}, nil
		}
		return Val{}, fmt.Errorf("no result here")
	}
	a := env.a
	if a != nil && a.fn != nil {
		if env.body {
			if al := a.allocNamed(name, env.at); al != nil {
				return env.loadAlloc(al), nil
			}
		}
		for _, p := range a.fn.Params {
			if p.Name() == name {
				if env.body {
					break
				}
				return a.vals[p], nil
			}
		}
		// named results and (in ensures) other locals: final values
		if al := a.allocNamed(name, nil); al != nil {
			return env.loadAlloc(al), nil
		}
		for i, fv := range a.fn.FreeVars {
			if fv.Name() == name && i < len(a.freeVars) {
				return env.load(a.freeVars[i]), nil
			}
		}
	}
	// package-level
	if env.scopePkg() != nil {
		pkg := env.scopePkg()
		if pkg != nil {
			if v, ok, err := env.pkgMember(pkg, name); ok {
				return v, err
			}
		}
	}
	if sf, ok := e.specFuncs[name]; ok && len(sf.Params) == 0 {
		return env.applySpecFunc(sf, nil)
	}
	return Val{}, fmt.Errorf("unknown identifier %q", name)
}

func fnPkg(fn *ssa.Function) *ssa.Package {
	for fn != nil {
		if fn.Pkg != nil {
			return fn.Pkg
		}
		if o := fn.Origin(); o != nil && o.Pkg != nil {
			return o.Pkg
		}
		fn = fn.Parent()
	}
	return nil
}

func (env *specEnv) pkgMember(pkg *ssa.Package, name string) (Val, bool, error) {
	e := env.e
	switch m := pkg.Members[name].(type) {
	case *ssa.NamedConst:
		cv := m.Value.Value
		if b, ok := m.Type().Underlying().(*types.Basic); ok && b.Info()&types.IsFloat != 0 && cv != nil {
			// an untyped float constant is converted to float64 where the code uses it: same rounding here
			cv = roundFloat64(cv)
		}
		return e.constantVal(cv, m.Type()), true, nil
	case *ssa.Global:
		lp := &LocPtr{Kind: pkGlobal, G: m, Key: m, BaseType: m.Type().(*types.Pointer).Elem()}
		if env.a == nil {
			return Val{}, true, fmt.Errorf("global %s without activation", name)
		}
		return env.a.loadLoc(lp, lp.BaseType, env.st), true, nil
	case *ssa.Function:
		return Val{Typ: m.Type(), Ext: &Closure{Fn: m}}, true, nil
	}
	return Val{}, false, nil
}

func (env *specEnv) loadAlloc(al *ssa.Alloc) Val {
	a := env.a
	if al.Heap {
		if env.st == a.entry {
			// old(...): the state at function entry, before the parameter was copied into its (captured, hence
			// heap-allocated) cell: the parameter itself
			for _, p := range a.fn.Params {
				if p.Name() == al.Comment {
					if v, ok := a.vals[p]; ok {
						return v
					}
				}
			}
		}
		pv, ok := a.vals[al]
		if !ok {
			return a.e.freshVal("undef."+al.Comment, al.Type().(*types.Pointer).Elem(), env.st)
		}
		return env.load(pv)
	}
	if v, ok := env.st.locals[al]; ok {
		return v
	}
	// not live in this state (e.g. inside old(...), which is the state at function entry, before the
	// parameter copies exist): a parameter's copy stands for the parameter itself
	for _, p := range a.fn.Params {
		if p.Name() == al.Comment {
			if v, ok := a.vals[p]; ok {
				return v
			}
		}
	}
	return a.e.freshVal("undef."+al.Comment, al.Type().(*types.Pointer).Elem(), env.st)
}

// allocNamed finds the local named name visible at block at (nil = function exit: the first declaration).
func (a *act) allocNamed(name string, at *ssa.BasicBlock) *ssa.Alloc {
	var best *ssa.Alloc
	for _, b := range a.fn.Blocks {
		for _, in := range b.Instrs {
			al, ok := in.(*ssa.Alloc)
			if !ok || al.Comment != name {
				continue
			}
			if at == nil {
				if best == nil || al.Pos() < best.Pos() {
					best = al
				}
				continue
			}
			if !(b == at || b.Dominates(at)) {
				continue
			}
			if best == nil || al.Pos() > best.Pos() {
				best = al
			}
		}
	}
	return best
}

func (env *specEnv) dollar(name string) (Val, error) {
	li := env.loop
	if li == nil {
		return Val{}, fmt.Errorf("$%s outside loop", name)
	}
	switch name {
	case "i":
		if li.rangeIdx != nil {
			v, ok := env.st.locals[li.rangeIdx]
			if !ok {
				return Val{}, fmt.Errorf("$i: range index not live")
			}
			if env.inBody {
				// in a call anchor inside the body: the index of the current iteration
				return Val{Typ: tInt, T: []Term{v.T[0]}}, nil
			}
			return Val{Typ: tInt, T: []Term{app(SInt, "+", v.T[0], intLit(1))}}, nil
		}
		if li.rangeIt != nil {
			if v, ok := env.st.locals[li.rangeIt]; ok {
				return Val{Typ: tInt, T: []Term{v.T[0]}}, nil
			}
		}
		return Val{}, fmt.Errorf("$i: not a range loop")
	case "outer", "outer2", "outer3":
		// $outer: index of the current iteration (= number of completed iterations) of the enclosing range loop
		depth := 1
		if len(name) > 5 {
			depth = int(name[5] - '0')
		}
		var encl []*loopInfo
		for _, o := range env.a.loops {
			if o != li && o.blocks[li.head] {
				encl = append(encl, o)
			}
		}
		sort.Slice(encl, func(i, j int) bool { return len(encl[i].blocks) < len(encl[j].blocks) })
		if depth > len(encl) {
			return Val{}, fmt.Errorf("$%s: no such enclosing loop", name)
		}
		o := encl[depth-1]
		if o.rangeIdx != nil {
			if v, ok := env.st.locals[o.rangeIdx]; ok && v.T != nil {
				return Val{Typ: tInt, T: []Term{v.T[0]}}, nil
			}
		}
		return Val{}, fmt.Errorf("$%s: the enclosing loop is not a range-over-slice loop", name)
	}
	return Val{}, fmt.Errorf("unknown $%s", name)
}

func (env *specEnv) binop(x *Expr) (Val, error) {
	e := env.e
	switch x.Name {
	case "&&", "||", "==>", "<==>":
		l, err := env.evalBool(x.Args[0])
		if err != nil {
			return Val{}, err
		}
		r, err := env.evalBool(x.Args[1])
		if err != nil {
			return Val{}, err
		}
		switch x.Name {
		case "&&":
			return boolVal(and(l, r)), nil
		case "||":
			return boolVal(or(l, r)), nil
		case "==>":
			return boolVal(implies(l, r)), nil
		default:
			return boolVal(eq(l, r)), nil
		}
	}
	l, err := env.eval(x.Args[0])
	if err != nil {
		return Val{}, err
	}
	r, err := env.eval(x.Args[1])
	if err != nil {
		return Val{}, err
	}
	op := map[string]token.Token{"+": token.ADD, "-": token.SUB, "*": token.MUL, "/": token.QUO, "%": token.REM,
		"==": token.EQL, "!=": token.NEQ, "<": token.LSS, "<=": token.LEQ, ">": token.GTR, ">=": token.GEQ}[x.Name]
	// dereference-free comparison of boxed interface against concrete value is not supported
	t, ok := e.binopTerms(op, l, r, l.Typ, nil)
	if !ok {
		return Val{}, fmt.Errorf("cannot apply %s to %v and %v in %s", x.Name, l.Typ, r.Typ, x)
	}
	typ := l.Typ
	if isUntyped(typ) {
		typ = r.Typ
	}
	switch t.Sort {
	case SBool:
		typ = tBool
	case SReal:
		if typ.Underlying() != tFloat.Underlying() {
			typ = tFloat
		}
	}
	return Val{Typ: typ, T: []Term{t}}, nil
}

func (env *specEnv) selector(x *Expr) (Val, error) {
	e := env.e
	// package-qualified name?
	if x.Args[0].Op == "ident" {
		if _, isVar := env.tryIdent(x.Args[0].Name); !isVar {
			if pkg := e.pkgByName(x.Args[0].Name); pkg != nil {
				if v, ok, err := env.pkgMember(pkg, x.Name); ok {
					return v, err
				}
				return Val{}, fmt.Errorf("unknown %s.%s", x.Args[0].Name, x.Name)
			}
		}
	}
	v, err := env.eval(x.Args[0])
	if err != nil {
		return Val{}, err
	}
	return env.fieldOf(v, x.Name)
}

func (env *specEnv) tryIdent(name string) (Val, bool) {
	v, err := env.ident(name)
	return v, err == nil
}

func (e *Engine) pkgByName(name string) *ssa.Package {
	// deterministic: a module package with that name first, then the standard-library package whose path is the
	// name itself (math, strings), then the candidate with the smallest path
	var found *ssa.Package
	rank := func(sp *ssa.Package) int {
		switch {
		case strings.HasPrefix(sp.Pkg.Path(), modPath):
			return 0
		case sp.Pkg.Path() == name:
			return 1
		case strings.HasPrefix(sp.Pkg.Path(), "oss.terrastruct.com/"):
			return 2
		case strings.Contains(sp.Pkg.Path(), "internal/"):
			return 4
		}
		return 3
	}
	for _, sp := range e.spkg {
		if sp.Pkg.Name() != name {
			continue
		}
		if found == nil || rank(sp) < rank(found) || (rank(sp) == rank(found) && sp.Pkg.Path() < found.Pkg.Path()) {
			found = sp
		}
	}
	return found
}

// fieldOf: x.f for struct values, pointers to structs (auto-deref), embedded fields.
func (env *specEnv) fieldOf(v Val, name string) (Val, error) {
	e := env.e
	t := v.Typ
	if p, ok := t.Underlying().(*types.Pointer); ok {
		// pointer to struct: address computation then load
		st, ok := p.Elem().Underlying().(*types.Struct)
		if !ok {
			return Val{}, fmt.Errorf("selector .%s on pointer to non-struct %v", name, t)
		}
		path, ft, ok := findField(st, name)
		if !ok {
			return Val{}, fmt.Errorf("no field %s in %v", name, p.Elem())
		}
		return env.loadPath(v, p.Elem(), path, ft)
	}
	if st, ok := t.Underlying().(*types.Struct); ok {
		path, ft, ok := findField(st, name)
		if !ok {
			return Val{}, fmt.Errorf("no field %s in %v", name, t)
		}
		if v.T == nil {
			return Val{}, fmt.Errorf("field of descriptor value")
		}
		cur := v
		curT := t
		for i, idx := range path {
			cs := curT.Underlying().(*types.Struct)
			f := cs.Field(idx)
			if pp, ok := f.Type().Underlying().(*types.Pointer); ok && i < len(path)-1 {
				// embedded pointer: continue in heap
				pv := e.fieldVal(cur, idx)
				return env.loadPath(pv, pp.Elem(), path[i+1:], ft)
			}
			cur = e.fieldVal(cur, idx)
			curT = f.Type()
		}
		return cur, nil
	}
	return Val{}, fmt.Errorf("selector .%s on %v", name, t)
}

// loadPath loads base.(path) where base points to an object of type bt; embedded pointers are followed.
func (env *specEnv) loadPath(base Val, bt types.Type, path []int, ft types.Type) (Val, error) {
	a := env.a
	if a == nil {
		return Val{}, fmt.Errorf("heap access without activation")
	}
	cur := base
	curT := bt
	var steps []pathStep
	flush := func() *LocPtr {
		if lp, ok := cur.Ext.(*LocPtr); ok && lp != nil {
			np := *lp
			np.Path = append(append([]pathStep{}, lp.Path...), steps...)
			return &np
		}
		var ref Term
		if cur.T != nil {
			ref = cur.T[0]
		} else {
			ref = a.e.cur.log.fresh("ref", SInt)
		}
		return &LocPtr{Kind: pkHeap, Base: ref, BaseType: curT, Path: steps}
	}
	t := curT
	for i, idx := range path {
		cs := t.Underlying().(*types.Struct)
		f := cs.Field(idx)
		steps = append(steps, pathStep{Field: idx})
		if pp, ok := f.Type().Underlying().(*types.Pointer); ok && i < len(path)-1 {
			lp := flush()
			cur = a.loadLoc(lp, f.Type(), env.st)
			curT = pp.Elem()
			t = curT
			steps = nil
			continue
		}
		t = f.Type()
	}
	lp := flush()
	return a.loadLoc(lp, ft, env.st), nil
}

// findField resolves a (possibly promoted) field name to an index path.
func findField(st *types.Struct, name string) ([]int, types.Type, bool) {
	for i := 0; i < st.NumFields(); i++ {
		if st.Field(i).Name() == name {
			return []int{i}, st.Field(i).Type(), true
		}
	}
	for i := 0; i < st.NumFields(); i++ {
		f := st.Field(i)
		if !f.Embedded() {
			continue
		}
		ft := f.Type()
		if p, ok := ft.Underlying().(*types.Pointer); ok {
			ft = p.Elem()
		}
		if es, ok := ft.Underlying().(*types.Struct); ok {
			if sub, t, ok := findField(es, name); ok {
				return append([]int{i}, sub...), t, true
			}
		}
	}
	return nil, nil, false
}

func (env *specEnv) index(x *Expr) (Val, error) {
	e := env.e
	b, err := env.eval(x.Args[0])
	if err != nil {
		return Val{}, err
	}
	i, err := env.eval(x.Args[1])
	if err != nil {
		return Val{}, err
	}
	if ks, ok := b.Ext.(*KnownSlice); ok && ks != nil && len(i.T) == 1 && isIntLit(i.T[0].S) {
		k, _ := strconv.Atoi(i.T[0].S)
		if k < len(ks.Elems) {
			return ks.Elems[k], nil
		}
	}
	switch u := b.Typ.Underlying().(type) {
	case *types.Slice:
		if b.T == nil {
			return Val{}, fmt.Errorf("index of descriptor slice")
		}
		lp := &LocPtr{Kind: pkElem, Base: b.T[0], BaseType: u.Elem(), Idx: addTerms(b.T[1], i.T[0])}
		return env.a.loadLoc(lp, u.Elem(), env.st), nil
	case *types.Basic:
		return Val{Typ: types.Typ[types.Uint8], T: []Term{app(SInt, "str.at", b.T[0], i.T[0])}}, nil
	case *types.Map:
		mh := e.mapHeaps(u)
		if mh == nil {
			return Val{}, fmt.Errorf("map with composite key")
		}
		m, k := b.T[0], i.T[0]
		in := and(app(SBool, "distinct", m, intLit(0)), sel(sel(e.heapGet(env.st, mh.dom, mh.domSort), m), k))
		var ts []Term
		for j, name := range mh.val {
			ts = append(ts, ite(in, sel(sel(e.heapGet(env.st, name, mh.valSort[j]), m), k), zeroOf(mh.vleaves[j].Sort)))
		}
		return Val{Typ: u.Elem(), T: ts}, nil
	case *types.Array:
		if isIntLit(i.T[0].S) {
			k, _ := strconv.Atoi(i.T[0].S)
			n := len(e.layout(u.Elem()))
			return Val{Typ: u.Elem(), T: b.T[k*n : (k+1)*n]}, nil
		}
	}
	return Val{}, fmt.Errorf("cannot index %v", b.Typ)
}

func (env *specEnv) quant(x *Expr) (Val, error) {
	e := env.e
	n := &specEnv{}
	*n = *env
	n.vars = map[string]Val{}
	for k, v := range env.vars {
		n.vars[k] = v
	}
	var decls []string
	for _, b := range x.Binds {
		t, err := env.parseType(b.Type)
		if err != nil {
			return Val{}, err
		}
		ls := e.layout(t)
		if len(ls) != 1 {
			return Val{}, fmt.Errorf("quantified variable %s must be scalar", b.Name)
		}
		*env.nq++
		name := fmt.Sprintf("%s?%d", sanitize(b.Name), *env.nq)
		n.vars[b.Name] = Val{Typ: t, T: []Term{{name, ls[0].Sort}}}
		decls = append(decls, fmt.Sprintf("(%s %s)", name, ls[0].Sort))
	}
	n.qdepth++
	// capture WF facts produced while evaluating the body
	log := e.cur.log
	save := log.capture
	cp := &capture{}
	log.capture = cp
	body, err := n.evalBool(x.Args[0])
	log.capture = save
	if err != nil {
		return Val{}, err
	}
	// Type well-formedness facts about terms under the binder (loaded references are allocated, slice headers are
	// sane, ...) hold for every value of the bound variables: they are asserted as separate universally quantified
	// facts rather than as antecedents, which would make an assumed quantified formula unusable whenever the solver
	// cannot re-derive them.
	if wf := and(cp.facts...); wf.S != "true" {
		q := Term{fmt.Sprintf("(forall (%s) %s)", strings.Join(decls, " "), wf.S), SBool}
		if save != nil {
			save.facts = append(save.facts, q) // nested: the enclosing binder closes over its own variables
		} else {
			log.assertGlobal(q)
		}
	}
	inner := body
	pat := ""
	if trig := env.pickTrigger(x, n); trig != "" {
		pat = trig
	}
	var s string
	if pat != "" {
		s = fmt.Sprintf("(%s (%s) (! %s %s))", x.Op, strings.Join(decls, " "), inner.S, pat)
	} else {
		s = fmt.Sprintf("(%s (%s) %s)", x.Op, strings.Join(decls, " "), inner.S)
	}
	return boolVal(Term{s, SBool}), nil
}

// pickTrigger: no explicit patterns are generated; the solvers infer them.
func (env *specEnv) pickTrigger(x *Expr, n *specEnv) string { return "" }

func (env *specEnv) parseType(s string) (types.Type, error) {
	s = strings.TrimSpace(s)
	switch s {
	case "int", "":
		return tInt, nil
	case "float64":
		return tFloat, nil
	case "bool":
		return tBool, nil
	case "string":
		return tString, nil
	case "rune", "int32":
		return types.Typ[types.Int32], nil
	case "byte", "uint8":
		return types.Typ[types.Uint8], nil
	case "int64":
		return types.Typ[types.Int64], nil
	case "any":
		return types.NewInterfaceType(nil, nil), nil
	}
	if strings.HasPrefix(s, "*") {
		t, err := env.parseType(s[1:])
		if err != nil {
			return nil, err
		}
		return types.NewPointer(t), nil
	}
	if strings.HasPrefix(s, "[]") {
		t, err := env.parseType(s[2:])
		if err != nil {
			return nil, err
		}
		return types.NewSlice(t), nil
	}
	var pkg *ssa.Package
	name := s
	if i := strings.Index(s, "."); i >= 0 {
		pkg = env.e.pkgByName(s[:i])
		name = s[i+1:]
	} else if env.scopePkg() != nil {
		pkg = env.scopePkg()
	}
	if pkg != nil {
		if o := pkg.Pkg.Scope().Lookup(name); o != nil {
			if tn, ok := o.(*types.TypeName); ok {
				return tn.Type(), nil
			}
		}
	}
	return nil, fmt.Errorf("unknown type %q", s)
}

func (env *specEnv) call(x *Expr) (Val, error) {
	e := env.e
	f := x.Args[0]
	args := x.Args[1:]
	evalArgs := func() ([]Val, error) {
		vs := make([]Val, len(args))
		for i, a := range args {
			v, err := env.eval(a)
			if err != nil {
				return nil, err
			}
			vs[i] = v
		}
		return vs, nil
	}
	fname := f.String()
	switch fname {
	case "len":
		vs, err := evalArgs()
		if err != nil {
			return Val{}, err
		}
		return Val{Typ: tInt, T: []Term{e.lenOf(vs[0], env.st)}}, nil
	case "cap":
		vs, err := evalArgs()
		if err != nil {
			return Val{}, err
		}
		if len(vs[0].T) == 4 {
			return Val{Typ: tInt, T: []Term{vs[0].T[3]}}, nil
		}
		return Val{}, fmt.Errorf("cap of non-slice")
	case "arg":
		vs, err := evalArgs()
		if err != nil {
			return Val{}, err
		}
		k, _ := strconv.Atoi(vs[0].T[0].S)
		return env.callArg(k)
	case "isType":
		// isType(x, T): the dynamic type of interface value x is exactly T
		if len(args) != 2 {
			return Val{}, fmt.Errorf("isType(x, T)")
		}
		v, err := env.eval(args[0])
		if err != nil {
			return Val{}, err
		}
		t, err := env.parseType(strings.ReplaceAll(args[1].String(), " ", ""))
		if err != nil {
			return Val{}, err
		}
		f := e.flat(v)
		if len(f) != 2 {
			return Val{}, fmt.Errorf("isType on non-interface")
		}
		return boolVal(eq(f[0], intLit(int64(e.typeTag(t))))), nil
	case "entry":
		// entry(e): e evaluated in the state in which the current loop was entered
		if env.loop == nil || env.loop.pre == nil || len(args) != 1 {
			return Val{}, fmt.Errorf("entry(e) is only available in loop invariants")
		}
		return env.withState(env.loop.pre).eval(args[0])
	case "fresh":
		// fresh(x): the reference / slice backing array / map x is nil or was allocated during this call (so writing
		// through it cannot violate the function's frame)
		vs, err := evalArgs()
		if err != nil {
			return Val{}, err
		}
		if len(vs[0].T) == 0 || e.cur.topAct == nil || e.cur.topAct.entry == nil {
			return Val{}, fmt.Errorf("fresh() needs a reference, slice or map")
		}
		r := vs[0].T[0]
		return boolVal(or(eq(r, intLit(0)), app(SBool, ">=", r, e.cur.topAct.entry.alloc))), nil
	case "samearr":
		// samearr(s1, s2): the two slices share their backing array (same array and offset)
		vs, err := evalArgs()
		if err != nil {
			return Val{}, err
		}
		if len(vs) != 2 || len(vs[0].T) != 4 || len(vs[1].T) != 4 {
			return Val{}, fmt.Errorf("samearr takes two slices")
		}
		return boolVal(and(eq(vs[0].T[0], vs[1].T[0]), eq(vs[0].T[1], vs[1].T[1]))), nil
	case "nilptr":
		// nilptr(x): x is a nil pointer, or an interface value holding a nil pointer (a "typed nil") or nothing
		vs, err := evalArgs()
		if err != nil {
			return Val{}, err
		}
		if len(vs) != 1 {
			return Val{}, fmt.Errorf("nilptr takes one argument")
		}
		f := e.flat(vs[0])
		switch len(f) {
		case 1:
			return boolVal(eq(f[0], intLit(0))), nil
		case 2:
			return boolVal(eq(f[1], intLit(0))), nil
		}
		return Val{}, fmt.Errorf("nilptr needs a pointer or an interface value")
	case "sharearr":
		// sharearr(s1, s2): the two slices have the same (non-nil) backing array
		vs, err := evalArgs()
		if err != nil {
			return Val{}, err
		}
		if len(vs) != 2 || len(vs[0].T) != 4 || len(vs[1].T) != 4 {
			return Val{}, fmt.Errorf("sharearr takes two slices")
		}
		return boolVal(and(eq(vs[0].T[0], vs[1].T[0]), not(eq(vs[0].T[0], intLit(0))))), nil
	case "noalias":
		// noalias(p1, ..., pn): the non-nil references among the arguments are pairwise different
		vs, err := evalArgs()
		if err != nil {
			return Val{}, err
		}
		var cs []Term
		for i := range vs {
			for j := i + 1; j < len(vs); j++ {
				if len(vs[i].T) != 1 || len(vs[j].T) != 1 {
					return Val{}, fmt.Errorf("noalias takes references")
				}
				cs = append(cs, implies(eq(vs[i].T[0], vs[j].T[0]), eq(vs[i].T[0], intLit(0))))
			}
		}
		return boolVal(and(cs...)), nil
	case "has":
		// has(m, k): key k is present in map m
		vs, err := evalArgs()
		if err != nil {
			return Val{}, err
		}
		mt, ok := vs[0].Typ.Underlying().(*types.Map)
		if !ok || vs[0].T == nil || vs[1].T == nil {
			return Val{}, fmt.Errorf("has(m, k) needs a map")
		}
		mh := e.mapHeaps(mt)
		if mh == nil {
			return Val{}, fmt.Errorf("has: map with composite key")
		}
		m, k := vs[0].T[0], vs[1].T[0]
		return boolVal(and(app(SBool, "distinct", m, intLit(0)), sel(sel(e.heapGet(env.st, mh.dom, mh.domSort), m), k))), nil
	case "zero":
		// zero(T): the zero value of a type
		if len(args) != 1 {
			return Val{}, fmt.Errorf("zero takes a type")
		}
		t, err := env.parseType(args[0].String())
		if err != nil {
			return Val{}, err
		}
		return e.zero(t), nil
	case "verbPrefix":
		// verbPrefix(k): the literal text of the call's constant format string (first argument) between verb k-1
		// and verb k; ties an argument position to what the format says around it
		vs, err := evalArgs()
		if err != nil {
			return Val{}, err
		}
		k, _ := strconv.Atoi(vs[0].T[0].S)
		if len(env.callArgs) == 0 || len(env.callArgs[0].T) != 1 {
			return Val{}, fmt.Errorf("verbPrefix outside a call anchor with a format string")
		}
		var format string
		found := false
		for s, t := range e.cur.lits {
			if t.S == env.callArgs[0].T[0].S {
				format, found = s, true
			}
		}
		if !found {
			return Val{}, fmt.Errorf("verbPrefix: the format string is not a constant")
		}
		pre, ok := fmtVerbPrefix(format, k)
		if !ok {
			return Val{}, fmt.Errorf("verbPrefix(%d): the format has fewer verbs", k)
		}
		return Val{Typ: tString, T: []Term{e.strLit(pre)}}, nil
	case "param":
		vs, err := evalArgs()
		if err != nil {
			return Val{}, err
		}
		k, _ := strconv.Atoi(vs[0].T[0].S)
		if k < len(env.callArgs) {
			return env.callArgs[k], nil
		}
		return Val{}, fmt.Errorf("param(%d) out of range", k)
	case "float64", "int", "int64", "rune", "byte", "string", "uint8", "int32":
		vs, err := evalArgs()
		if err != nil {
			return Val{}, err
		}
		to, _ := env.parseType(fname)
		from := vs[0].Typ
		if isUntyped(from) {
			if vs[0].T[0].Sort == SReal {
				from = tFloat
			} else {
				from = tInt
			}
		}
		return env.a.convert(vs[0], from, to, env.st), nil
	case "abs":
		vs, err := evalArgs()
		if err != nil {
			return Val{}, err
		}
		t := vs[0].T[0]
		if t.Sort == SReal {
			return Val{Typ: tFloat, T: []Term{app(SReal, "rabs", t)}}, nil
		}
		return Val{Typ: tInt, T: []Term{app(SInt, "iabs", t)}}, nil
	case "min", "max":
		vs, err := evalArgs()
		if err != nil {
			return Val{}, err
		}
		l, r := coerce(vs[0].T[0], vs[1].T[0])
		pre := "i"
		typ := types.Type(tInt)
		if l.Sort == SReal {
			pre, typ = "r", tFloat
		}
		return Val{Typ: typ, T: []Term{app(l.Sort, pre+fname, l, r)}}, nil
	case "allocated":
		vs, err := evalArgs()
		if err != nil {
			return Val{}, err
		}
		r := vs[0].T[0]
		return boolVal(and(app(SBool, "<", intLit(0), r), app(SBool, "<", r, env.st.alloc))), nil
	}
	if sf, ok := e.specFuncs[fname]; ok {
		vs, err := evalArgs()
		if err != nil {
			return Val{}, err
		}
		return env.applySpecFunc(sf, vs)
	}
	// Go function (package-local or qualified)
	var fn *ssa.Function
	var recv *Val
	switch f.Op {
	case "ident":
		if env.scopePkg() != nil {
			if pkg := env.scopePkg(); pkg != nil {
				fn = pkg.Func(f.Name)
			}
		}
	case "sel":
		if f.Args[0].Op == "ident" {
			if _, isVar := env.tryIdent(f.Args[0].Name); !isVar {
				if pkg := e.pkgByName(f.Args[0].Name); pkg != nil {
					fn = pkg.Func(f.Name)
				}
			}
		}
		if fn == nil {
			// method call
			rv, err := env.eval(f.Args[0])
			if err != nil {
				return Val{}, err
			}
			if types.IsInterface(rv.Typ) {
				// interface method: only through a pure extern contract "pkg.Iface.Method"
				iname := "interface." + f.Name
				if n, ok := rv.Typ.(*types.Named); ok {
					iname = n.Obj().Name() + "." + f.Name
					if n.Obj().Pkg() != nil {
						iname = n.Obj().Pkg().Name() + "." + iname
					}
				}
				xs := e.externs[iname]
				if xs == nil || !xs.Pure {
					return Val{}, fmt.Errorf("interface method %s needs a pure extern contract to be used in a spec", iname)
				}
				vs, err := evalArgs()
				if err != nil {
					return Val{}, err
				}
				var rtyp types.Type
				if m := interfaceMethod(rv.Typ, f.Name); m != nil {
					res := m.Type().(*types.Signature).Results()
					rtyp = res
					if res.Len() == 1 {
						rtyp = res.At(0).Type()
					}
				}
				if rtyp == nil {
					return Val{}, fmt.Errorf("no method %s on %v", f.Name, rv.Typ)
				}
				e.cur.externsUsed[xs.Name] = true
				uargs := append([]Val{rv}, vs...)
				if xs.Heap {
					uargs = append(uargs, Val{Typ: types.Typ[types.Int], T: []Term{e.heapVersion(env.st)}})
				}
				return env.a.pureUF(xs.Name, uargs, rtyp, env.st), nil
			}
			fn = e.methodByName(rv.Typ, f.Name)
			if fn == nil {
				return Val{}, fmt.Errorf("unknown method %s on %v", f.Name, rv.Typ)
			}
			// adjust receiver: value method called on pointer
			if _, isPtr := fn.Signature.Recv().Type().(*types.Pointer); !isPtr {
				if _, vptr := rv.Typ.Underlying().(*types.Pointer); vptr {
					rv = env.load(rv)
				}
			}
			recv = &rv
		}
	}
	if fn == nil {
		return Val{}, fmt.Errorf("unknown function %s", fname)
	}
	vs, err := evalArgs()
	if err != nil {
		return Val{}, err
	}
	if recv != nil {
		vs = append([]Val{*recv}, vs...)
	}
	return env.applyGoFunc(fn, vs)
}

func interfaceMethod(t types.Type, name string) *types.Func {
	it, ok := t.Underlying().(*types.Interface)
	if !ok {
		return nil
	}
	for i := 0; i < it.NumMethods(); i++ {
		if it.Method(i).Name() == name {
			return it.Method(i)
		}
	}
	return nil
}

func (e *Engine) methodByName(t types.Type, name string) *ssa.Function {
	for _, T := range []types.Type{t, types.NewPointer(t)} {
		ms := e.prog.MethodSets.MethodSet(T)
		for i := 0; i < ms.Len(); i++ {
			if ms.At(i).Obj().Name() == name {
				fn := e.prog.MethodValue(ms.At(i))
				if fn != nil && fn.Synthetic != "" {
					if o, ok := ms.At(i).Obj().(*types.Func); ok {
						if d := e.prog.FuncValue(o); d != nil {
							return d
						}
					}
				}
				return fn
			}
		}
	}
	return nil
}

// applyGoFunc: a Go function used inside a spec: intrinsic, pure under contract, or leaf accessor (inlined).
func (env *specEnv) applyGoFunc(fn *ssa.Function, args []Val) (Val, error) {
	e := env.e
	a := env.a
	name := calleeName(fn)
	res := fn.Signature.Results()
	var rtyp types.Type = res
	if res.Len() == 1 {
		rtyp = res.At(0).Type()
	}
	for i := range args {
		if isUntyped(args[i].Typ) && i < fn.Signature.Params().Len() {
			pt := fn.Signature.Params().At(i).Type()
			if len(e.layout(pt)) == 1 && e.layout(pt)[0].Sort == SReal {
				args[i] = Val{Typ: pt, T: []Term{toReal(args[i].T[0])}}
			} else {
				args[i].Typ = pt
			}
		}
	}
	if a != nil {
		if v, ok := a.intrinsic(name, fn, args, rtyp, env.st, tTrue, nil); ok {
			return v, nil
		}
	}
	if xs := e.externs[name]; xs != nil && xs.Pure && a != nil && len(xs.Ensures) == 0 && len(xs.Requires) == 0 {
		// a function with a plain `extern ... pure` declaration: the same uninterpreted application the code gets
		e.cur.externsUsed[xs.Name] = true
		uargs := args
		if xs.Heap {
			uargs = append(append([]Val{}, args...), Val{Typ: types.Typ[types.Int], T: []Term{e.heapVersion(env.st)}})
		}
		return a.pureUF(xs.Name, uargs, rtyp, env.st), nil
	}
	if fs := e.specOf(fn); fs != nil && fs.Pure {
		res := a.pureSpecUF(fs, name, args, rtyp, env.st)
		// instantiate the contract for this application: requires ==> ensures
		sub := e.newEnv(a, env.st)
		sub.vars = map[string]Val{}
		sub.fnScope = fn
		sub.qdepth = env.qdepth
		sub.nq = env.nq
		sig := fn.Signature
		pi := 0
		if sig.Recv() != nil {
			sub.vars[sig.Recv().Name()] = args[0]
			pi = 1
		}
		for i := 0; i < sig.Params().Len() && pi+i < len(args); i++ {
			sub.vars[sig.Params().At(i).Name()] = args[pi+i]
		}
		if sig.Results().Len() == 1 {
			sub.results = []Val{res}
			if n := sig.Results().At(0).Name(); n != "" {
				sub.vars[n] = res
			}
		}
		var pre, post []Term
		for _, c := range fs.Requires {
			if t, err := sub.evalBool(c.E); err == nil {
				pre = append(pre, t)
			}
		}
		for _, c := range fs.Ensures {
			if t, err := sub.evalBool(c.E); err == nil {
				post = append(post, t)
			}
		}
		e.cur.log.assert(implies(and(pre...), and(post...)))
		if fs.Trusted {
			e.cur.trustedUsed[name] = true
		}
		return res, nil
	}
	if fn.Pkg != nil && (pureLibPkgs[fn.Pkg.Pkg.Path()] || pureLibFuncs[name]) {
		return a.pureUF(name, args, rtyp, env.st), nil
	}
	if env.qdepth == 0 && a != nil && a.canAutoInline(fn) && fn.Parent() == nil {
		// leaf accessor: evaluate its body on a scratch copy of the state (must not have effects)
		v, _ := a.inline(fn, nil, args, rtyp, env.st.clone(), tTrue, name)
		return v, nil
	}
	return Val{}, fmt.Errorf("function %s is not pure/intrinsic and cannot be used in a spec", name)
}

func (env *specEnv) callArg(k int) (Val, error) {
	e := env.e
	if len(env.callArgs) == 0 {
		return Val{}, fmt.Errorf("arg() outside call anchor")
	}
	last := env.callArgs[len(env.callArgs)-1]
	if ks, ok := last.Ext.(*KnownSlice); ok && ks != nil {
		if k >= len(ks.Elems) {
			return Val{}, fmt.Errorf("arg(%d) out of range", k)
		}
		v := ks.Elems[k]
		// unbox interface elements with statically known tags
		if types.IsInterface(v.Typ) && v.T != nil && isIntLit(v.T[0].S) {
			tag, _ := strconv.Atoi(v.T[0].S)
			if tag >= 1 && tag <= len(e.tagTypes) {
				return e.unbox(v.T[1], e.tagTypes[tag-1], env.st), nil
			}
		}
		return v, nil
	}
	if k < len(env.callArgs) {
		return env.callArgs[k], nil
	}
	return Val{}, fmt.Errorf("arg(%d) out of range", k)
}

// applySpecFunc: spec functions with bodies are macros evaluated in the current state; body-less ones are
// uninterpreted functions of their (flattened) arguments.
func (env *specEnv) applySpecFunc(sf *SpecFunc, args []Val) (Val, error) {
	e := env.e
	if len(args) != len(sf.Params) {
		return Val{}, fmt.Errorf("%s: %d arguments, want %d", sf.Name, len(args), len(sf.Params))
	}
	if sf.Ghost {
		key, ok := ghostKey(args[0])
		if !ok {
			return Val{}, fmt.Errorf("ghost %s: argument is not a reference", sf.Name)
		}
		rt, err := env.parseType(sf.Ret)
		if err != nil {
			return Val{}, err
		}
		ls := e.layout(rt)
		if len(ls) != 1 {
			return Val{}, fmt.Errorf("ghost %s: result must be scalar", sf.Name)
		}
		h := e.heapGet(env.st, "G_"+sf.Name, arrSort(SInt, ls[0].Sort))
		return Val{Typ: rt, T: []Term{sel(h, key)}}, nil
	}
	if sf.Body != nil {
		n := &specEnv{}
		*n = *env
		n.vars = map[string]Val{}
		// binders of enclosing quantifiers stay visible
		for k, v := range env.vars {
			if strings.Contains(firstTerm(v), "?") {
				n.vars[k] = v
			}
		}
		for i, p := range sf.Params {
			v := args[i]
			if isUntyped(v.Typ) {
				if t, err := env.parseType(p.Type); err == nil {
					if len(e.layout(t)) == 1 && e.layout(t)[0].Sort == SReal {
						v = Val{Typ: t, T: []Term{toReal(v.T[0])}}
					} else {
						v.Typ = t
					}
				}
			}
			n.vars[p.Name] = v
		}
		return n.eval(sf.Body.E)
	}
	rt, err := env.parseType(sf.Ret)
	if err != nil {
		return Val{}, err
	}
	var ats []Term
	var sorts []Sort
	for i, v := range args {
		f := e.flat(v)
		if pt, err := env.parseType(sf.Params[i].Type); err == nil {
			if ls := e.layout(pt); len(ls) == 1 && ls[0].Sort == SReal && len(f) == 1 {
				f = []Term{toReal(f[0])}
			}
		}
		for _, t := range f {
			ats = append(ats, t)
			sorts = append(sorts, t.Sort)
		}
	}
	// heap families the function reads are explicit arguments
	var keyParts []string
	for i, v := range args {
		if pt, err := env.parseType(sf.Params[i].Type); err == nil {
			if ls := e.layout(pt); len(ls) == 1 && ls[0].Sort == SInt && ls[0].Kind == lkScalar {
				continue // integer parameters are not part of the axiom-instantiation key
			}
		}
		for _, t := range e.flat(v) {
			keyParts = append(keyParts, t.S)
		}
	}
	for _, r := range sf.Reads {
		for _, h := range env.readsHeaps(r) {
			t := e.heapGet(env.st, h, e.cur.heapSorts[h])
			ats = append(ats, t)
			sorts = append(sorts, t.Sort)
			keyParts = append(keyParts, t.S)
		}
	}
	ls := e.layout(rt)
	ts := make([]Term, len(ls))
	for i, l := range ls {
		fname := "spec." + sanitize(sf.Name)
		if len(ls) > 1 {
			fname = fmt.Sprintf("%s.%d", fname, i)
		}
		e.cur.log.declFun(fname, sorts, l.Sort)
		ts[i] = app(l.Sort, fname, ats...)
	}
	// instantiate the axioms for these arguments (once per argument/heap combination; not under binders)
	key := "specax:" + sf.Name + ":" + strings.Join(keyParts, ",")
	bound := false
	for _, t := range ats {
		if strings.Contains(t.S, "?") {
			bound = true
		}
	}
	if !bound && !e.cur.ufs[key] && len(sf.Axioms) > 0 {
		e.cur.ufs[key] = true
		n := &specEnv{}
		*n = *env
		n.vars = map[string]Val{}
		n.qdepth = 0
		for i, p := range sf.Params {
			n.vars[p.Name] = args[i]
		}
		save := e.cur.log.capture
		e.cur.log.capture = nil
		for _, ax := range sf.Axioms {
			t, err := n.evalBool(ax.E)
			if err != nil {
				e.cur.anchorErrs = append(e.cur.anchorErrs, fmt.Sprintf("spec func %s axiom %q: %v", sf.Name, ax.Text, err))
				continue
			}
			e.cur.log.assertGlobal(t)
		}
		e.cur.log.capture = save
		e.cur.externsUsed["spec-function axioms: "+sf.Name] = true
	}
	return Val{Typ: rt, T: ts}, nil
}

// readsHeaps: "pkg.Type.field" (object heap families) or "elems(pkg.Type)" / "elems(*pkg.Type)" (slice elements)
func (env *specEnv) readsHeaps(pat string) []string {
	e := env.e
	if strings.HasPrefix(pat, "elems(") && strings.HasSuffix(pat, ")") {
		t, err := env.parseType(pat[6 : len(pat)-1])
		if err != nil {
			return nil
		}
		var out []string
		for _, l := range e.layout(t) {
			name := elemHeapName(t, l.Path)
			e.cur.heapSorts[name] = arrSort(SInt, arrSort(SInt, l.Sort))
			out = append(out, name)
		}
		return out
	}
	return e.heapsMatching(pat)
}

// ghostSetParts resolves `g(x)` of a ghostset clause: the ghost family, its sort, and the key term of x in env.
func (env *specEnv) ghostSetParts(gs *GhostSet) (name string, srt Sort, key Term, err error) {
	e := env.e
	x := gs.Target.E
	if x.Op != "call" || x.Args[0].Op != "ident" || len(x.Args) != 2 {
		return "", "", Term{}, fmt.Errorf("ghostset target must be g(x)")
	}
	sf, ok := e.specFuncs[x.Args[0].Name]
	if !ok || !sf.Ghost {
		return "", "", Term{}, fmt.Errorf("ghostset: %s is not a ghost", x.Args[0].Name)
	}
	v, err := env.eval(x.Args[1])
	if err != nil {
		return "", "", Term{}, err
	}
	k, ok := ghostKey(v)
	if !ok {
		return "", "", Term{}, fmt.Errorf("ghostset target needs a reference")
	}
	rt, err := env.parseType(sf.Ret)
	if err != nil {
		return "", "", Term{}, err
	}
	ls := e.layout(rt)
	if len(ls) != 1 {
		return "", "", Term{}, fmt.Errorf("ghost %s: result must be scalar", sf.Name)
	}
	return "G_" + sf.Name, arrSort(SInt, ls[0].Sort), k, nil
}

// applyGhostSets performs the ghost updates of fs on st (the exit state of the body under verification); env reads the
// exit state, with old(...) = entry.
func (env *specEnv) applyGhostSets(fs *FuncSpec, st *State) {
	e := env.e
	for _, gs := range fs.GhostSets {
		name, srt, key, err := env.ghostSetParts(gs)
		if err != nil {
			env.a.specError(gs.Target, err)
			continue
		}
		v, err := env.eval(gs.Val.E)
		if err != nil || len(v.T) != 1 {
			if err == nil {
				err = fmt.Errorf("ghostset value must be scalar")
			}
			env.a.specError(gs.Val, err)
			continue
		}
		e.cur.heapSorts[name] = srt
		h := e.heapGet(st, name, srt)
		e.heapSet(st, name, store(h, key, v.T[0]))
	}
}

// ghostKey: the reference a ghost is attached to: pointer/map ref, slice backing array, interface payload.
func ghostKey(v Val) (Term, bool) {
	if v.T == nil {
		return Term{}, false
	}
	switch v.Typ.Underlying().(type) {
	case *types.Pointer, *types.Map, *types.Slice:
		return v.T[0], true
	case *types.Interface:
		if len(v.T) == 2 {
			return v.T[1], true
		}
	}
	return Term{}, false
}

func firstTerm(v Val) string {
	if len(v.T) > 0 {
		return v.T[0].S
	}
	return ""
}

// havocTarget: modifies-clause targets: x.f, *x, x[i], all(pkg.Type.field)
func (env *specEnv) havocTarget(x *Expr, st *State) error {
	e := env.e
	a := env.a
	if x.Op == "ident" && x.Name == "anything" {
		a.havocAll(st)
		return nil
	}
	if x.Op == "ident" && x.Name == "ghosts" {
		// every ghost family (library objects' abstract state)
		for _, name := range sortedKeys(e.specFuncs) {
			sf := e.specFuncs[name]
			if !sf.Ghost || sf.Pkg != "" {
				continue // ghosts of module packages are the program's own ghost state: only `ghostset` changes them
			}
			rt, err := env.parseType(sf.Ret)
			if err != nil {
				return err
			}
			srt := arrSort(SInt, e.layout(rt)[0].Sort)
			e.cur.heapSorts["G_"+name] = srt
			e.heapReplace(st, "G_"+name, e.cur.log.fresh("G_"+name, srt))
		}
		return nil
	}
	if x.Op == "call" && x.Args[0].Op == "ident" {
		if sf, ok := e.specFuncs[x.Args[0].Name]; ok && sf.Ghost && len(x.Args) == 2 {
			v, err := env.eval(x.Args[1])
			if err != nil {
				return err
			}
			key, ok := ghostKey(v)
			if !ok {
				return fmt.Errorf("ghost target needs a reference")
			}
			rt, err := env.parseType(sf.Ret)
			if err != nil {
				return err
			}
			srt := arrSort(SInt, e.layout(rt)[0].Sort)
			h := e.heapGet(st, "G_"+sf.Name, srt)
			e.heapSet(st, "G_"+sf.Name, store(h, key, e.cur.log.fresh("gh", e.layout(rt)[0].Sort)))
			return nil
		}
	}
	if x.Op == "call" && x.Args[0].Op == "ident" && x.Args[0].Name == "all" {
		for _, arg := range x.Args[1:] {
			hs := env.readsHeaps(arg.String()) // pkg.Type.field or elems(T)
			if len(hs) == 0 {
				return fmt.Errorf("no heap family matches %s", arg)
			}
			for _, h := range hs {
				e.heapReplace(st, h, e.cur.log.fresh(h, e.cur.heapSorts[h]))
			}
		}
		return nil
	}
	if x.Op == "call" && x.Args[0].Op == "ident" && x.Args[0].Name == "entries" && len(x.Args) == 2 {
		// entries(m): the key set and all values of map m
		v, err := env.eval(x.Args[1])
		if err != nil {
			return err
		}
		mt, ok := v.Typ.Underlying().(*types.Map)
		if !ok || v.T == nil {
			return fmt.Errorf("entries() of non-map")
		}
		mh := e.mapHeaps(mt)
		if mh == nil {
			return fmt.Errorf("entries(): map with composite key")
		}
		dh := e.heapGet(st, mh.dom, mh.domSort)
		e.heapSet(st, mh.dom, store(dh, v.T[0], e.cur.log.fresh("entries.dom", arrSort(mh.keySort, SBool))))
		for i, name := range mh.val {
			h := e.heapGet(st, name, mh.valSort[i])
			e.heapSet(st, name, store(h, v.T[0], e.cur.log.fresh("entries.val", arrSort(mh.keySort, mh.vleaves[i].Sort))))
		}
		return nil
	}
	if x.Op == "call" && x.Args[0].Op == "ident" && x.Args[0].Name == "elems" {
		// elems(s): all elements of slice s
		v, err := env.eval(x.Args[1])
		if err != nil {
			return err
		}
		sl, ok := v.Typ.Underlying().(*types.Slice)
		if !ok || v.T == nil {
			return fmt.Errorf("elems() of non-slice")
		}
		for _, l := range e.layout(sl.Elem()) {
			name := elemHeapName(sl.Elem(), l.Path)
			srt := arrSort(SInt, arrSort(SInt, l.Sort))
			h := e.heapGet(st, name, srt)
			e.heapSet(st, name, store(h, v.T[0], e.cur.log.fresh("elems", arrSort(SInt, l.Sort))))
		}
		return nil
	}
	lp, t, err := env.evalLoc(x)
	if err != nil {
		return err
	}
	a.storeLoc(lp, e.freshVal("mod", t, nil), st)
	return nil
}

func (env *specEnv) evalLoc(x *Expr) (*LocPtr, types.Type, error) {
	e := env.e
	switch x.Op {
	case "unop":
		if x.Name == "*" {
			v, err := env.eval(x.Args[0])
			if err != nil {
				return nil, nil, err
			}
			pt, ok := v.Typ.Underlying().(*types.Pointer)
			if !ok {
				return nil, nil, fmt.Errorf("* of non-pointer")
			}
			if lp, ok := v.Ext.(*LocPtr); ok && lp != nil {
				return lp, pt.Elem(), nil
			}
			return &LocPtr{Kind: pkHeap, Base: v.T[0], BaseType: pt.Elem()}, pt.Elem(), nil
		}
	case "sel":
		// base as value
		bv, err := env.eval(x.Args[0])
		if err == nil {
			if pt, ok := bv.Typ.Underlying().(*types.Pointer); ok {
				st, ok := pt.Elem().Underlying().(*types.Struct)
				if !ok {
					return nil, nil, fmt.Errorf("field of pointer to non-struct")
				}
				path, ft, ok := findField(st, x.Name)
				if !ok {
					return nil, nil, fmt.Errorf("no field %s", x.Name)
				}
				// promoted fields: embedded pointers are followed by loading (the location is then in that object),
				// embedded struct values are part of the same object (the path just gets longer)
				cur := bv
				curT := pt.Elem()
				var steps []pathStep
				walkT := curT
				for i := 0; i < len(path); i++ {
					cs := walkT.Underlying().(*types.Struct)
					f := cs.Field(path[i])
					steps = append(steps, pathStep{Field: path[i]})
					if pp, ok := f.Type().Underlying().(*types.Pointer); ok && i < len(path)-1 {
						fieldPath := make([]int, len(steps))
						for k, s := range steps {
							fieldPath[k] = s.Field
						}
						cur, err = env.loadPath(cur, curT, fieldPath, f.Type())
						if err != nil {
							return nil, nil, err
						}
						curT = pp.Elem()
						walkT = curT
						steps = nil
						continue
					}
					walkT = f.Type()
				}
				var lp *LocPtr
				if blp, ok := cur.Ext.(*LocPtr); ok && blp != nil {
					np := *blp
					np.Path = append(append([]pathStep{}, blp.Path...), steps...)
					lp = &np
				} else {
					lp = &LocPtr{Kind: pkHeap, Base: cur.T[0], BaseType: curT, Path: steps}
				}
				return lp, ft, nil
			}
		}
		blp, bt, err2 := env.evalLoc(x.Args[0])
		if err2 != nil {
			if err != nil {
				return nil, nil, err
			}
			return nil, nil, err2
		}
		st, ok := bt.Underlying().(*types.Struct)
		if !ok {
			return nil, nil, fmt.Errorf("field of non-struct location")
		}
		path, ft, ok := findField(st, x.Name)
		if !ok || len(path) != 1 {
			return nil, nil, fmt.Errorf("no direct field %s", x.Name)
		}
		np := *blp
		np.Path = append(append([]pathStep{}, blp.Path...), pathStep{Field: path[0]})
		return &np, ft, nil
	case "index":
		bv, err := env.eval(x.Args[0])
		if err != nil {
			return nil, nil, err
		}
		iv, err := env.eval(x.Args[1])
		if err != nil {
			return nil, nil, err
		}
		sl, ok := bv.Typ.Underlying().(*types.Slice)
		if !ok || bv.T == nil {
			return nil, nil, fmt.Errorf("index location of non-slice")
		}
		return &LocPtr{Kind: pkElem, Base: bv.T[0], BaseType: sl.Elem(), Idx: addTerms(bv.T[1], iv.T[0])}, sl.Elem(), nil
	case "ident":
		// a local of the function (named result)
		if env.a != nil {
			if al := env.a.allocNamed(x.Name, nil); al != nil && !al.Heap {
				et := al.Type().(*types.Pointer).Elem()
				return &LocPtr{Kind: pkLocal, Key: al, BaseType: et}, et, nil
			}
		}
	}
	_ = e
	return nil, nil, fmt.Errorf("not a location: %s", x)
}
