package main

// SMT-LIB term construction, query files and the solver race.

import (
	"bytes"
	"context"
	"fmt"
	"os"
	"os/exec"
	"path/filepath"
	"strings"
	"sync"
	"time"
)

type Sort string

const (
	SInt  Sort = "Int"
	SReal Sort = "Real"
	SBool Sort = "Bool"
	SStr  Sort = "Str"
)

func arrSort(idx, elem Sort) Sort { return Sort("(Array " + string(idx) + " " + string(elem) + ")") }

type Term struct {
	S    string
	Sort Sort
}

func (t Term) String() string { return t.S }

var (
	tTrue  = Term{"true", SBool}
	tFalse = Term{"false", SBool}
)

func intLit(n int64) Term {
	if n < 0 {
		return Term{fmt.Sprintf("(- %d)", -n), SInt}
	}
	return Term{fmt.Sprintf("%d", n), SInt}
}

func app(sort Sort, op string, args ...Term) Term {
	var sb strings.Builder
	sb.WriteByte('(')
	sb.WriteString(op)
	for _, a := range args {
		sb.WriteByte(' ')
		sb.WriteString(a.S)
	}
	sb.WriteByte(')')
	return Term{sb.String(), sort}
}

func and(ts ...Term) Term {
	var xs []Term
	for _, t := range ts {
		if t.S == "true" {
			continue
		}
		if t.S == "false" {
			return tFalse
		}
		xs = append(xs, t)
	}
	switch len(xs) {
	case 0:
		return tTrue
	case 1:
		return xs[0]
	}
	return app(SBool, "and", xs...)
}

func or(ts ...Term) Term {
	var xs []Term
	for _, t := range ts {
		if t.S == "false" {
			continue
		}
		if t.S == "true" {
			return tTrue
		}
		xs = append(xs, t)
	}
	switch len(xs) {
	case 0:
		return tFalse
	case 1:
		return xs[0]
	}
	return app(SBool, "or", xs...)
}

func not(t Term) Term {
	switch t.S {
	case "true":
		return tFalse
	case "false":
		return tTrue
	}
	if strings.HasPrefix(t.S, "(not ") {
		return Term{t.S[5 : len(t.S)-1], SBool}
	}
	return app(SBool, "not", t)
}

func implies(a, b Term) Term {
	if a.S == "true" {
		return b
	}
	if a.S == "false" || b.S == "true" {
		return tTrue
	}
	return app(SBool, "=>", a, b)
}

func eq(a, b Term) Term {
	if a.S == b.S {
		return tTrue
	}
	if isStrLit(a.S) && isStrLit(b.S) {
		return tFalse // distinct string literals
	}
	a, b = coerce(a, b)
	return app(SBool, "=", a, b)
}

func isStrLit(s string) bool { return s == "str.empty" || strings.HasPrefix(s, "lit!") }

func ite(c, a, b Term) Term {
	if c.S == "true" {
		return a
	}
	if c.S == "false" {
		return b
	}
	if a.S == b.S {
		return a
	}
	a, b = coerce(a, b)
	return app(a.Sort, "ite", c, a, b)
}

// coerce lifts Int to Real when sorts are mixed.
func coerce(a, b Term) (Term, Term) {
	if a.Sort == SInt && b.Sort == SReal {
		return toReal(a), b
	}
	if a.Sort == SReal && b.Sort == SInt {
		return a, toReal(b)
	}
	return a, b
}

func toReal(a Term) Term {
	if a.Sort == SReal {
		return a
	}
	// literal fast path
	if isIntLit(a.S) {
		return Term{a.S + ".0", SReal}
	}
	if strings.HasPrefix(a.S, "(- ") && isIntLit(a.S[3:len(a.S)-1]) {
		return Term{"(- " + a.S[3:len(a.S)-1] + ".0)", SReal}
	}
	return app(SReal, "to_real", a)
}

func isIntLit(s string) bool {
	if s == "" {
		return false
	}
	for _, c := range s {
		if c < '0' || c > '9' {
			return false
		}
	}
	return true
}

func sel(arr, idx Term) Term {
	// (Array I E) -> E
	s := string(arr.Sort)
	es := elemSortOf(s)
	return app(Sort(es), "select", arr, idx)
}

func store(arr, idx, v Term) Term {
	return app(arr.Sort, "store", arr, idx, v)
}

// elemSortOf parses "(Array I E)" and returns E.
func elemSortOf(s string) string {
	if !strings.HasPrefix(s, "(Array ") {
		panic("not an array sort: " + s)
	}
	body := s[len("(Array ") : len(s)-1]
	// index sort is first token or parenthesised group
	depth := 0
	for i, c := range body {
		switch c {
		case '(':
			depth++
		case ')':
			depth--
		case ' ':
			if depth == 0 {
				return body[i+1:]
			}
		}
	}
	panic("bad array sort " + s)
}

// ---------------------------------------------------------------------------------------------
// Log: ordered declarations, facts and obligations of one verified function.

type entryKind int

const (
	eDecl entryKind = iota
	eAssert
	eOblig
)

type logEntry struct {
	kind entryKind
	text string // decl: full command; assert: the formula; oblig: the formula (guard => cond)
	ob   *Obligation
}

type Obligation struct {
	Name     string
	Kind     string
	Pos      string
	Formula  Term // guard => cond
	index    int  // position in log
	Inputs   []string
	Fn       string
	Claimed  bool
	Result   string // unsat / sat / unknown / timeout
	Solver   string
	Ms       int64
	Model    string
	Output   string
	SmtFile  string
	Agree    []string // solvers that independently answered unsat (thorough)
	Smoke    bool     // smoke obligation: expected NOT unsat
	Abstract bool     // depends on abstracted instructions
	kfUnrestricted bool // the unrestricted form of an obligation with an open known finding (expected to fail)
	kfName   string
	Auto     bool // helper obligation of an uncontracted loop: never named in the ledger, always checked
	Cheap    bool // package sweep: only the short focused query is tried
	Retried  bool // no definite answer within the limit on the first pass; decided again alone with a longer limit
	shortLimit bool // thorough tier, obligation unclaimed on the reference tree: tried with the quick limit only
}

type Log struct {
	entries  []logEntry
	nfresh   int
	declared map[string]bool
	capture  *capture
}

func newLog() *Log { return &Log{declared: map[string]bool{}} }

func (l *Log) decl(cmd string) { l.entries = append(l.entries, logEntry{kind: eDecl, text: cmd}) }

func (l *Log) declConst(name string, s Sort) Term {
	if !l.declared[name] {
		l.declared[name] = true
		l.decl(fmt.Sprintf("(declare-const %s %s)", name, s))
	}
	return Term{name, s}
}

func (l *Log) declFun(name string, args []Sort, ret Sort) {
	if l.declared[name] {
		return
	}
	l.declared[name] = true
	as := make([]string, len(args))
	for i, a := range args {
		as[i] = string(a)
	}
	l.decl(fmt.Sprintf("(declare-fun %s (%s) %s)", name, strings.Join(as, " "), ret))
}

func (l *Log) assert(t Term) {
	if t.S == "true" {
		return
	}
	if l.capture != nil {
		l.capture.facts = append(l.capture.facts, t)
		return
	}
	l.entries = append(l.entries, logEntry{kind: eAssert, text: t.S})
}

func (l *Log) assertGlobal(t Term) {
	if t.S == "true" {
		return
	}
	l.entries = append(l.entries, logEntry{kind: eAssert, text: t.S})
}

func (l *Log) fresh(hint string, s Sort) Term {
	l.nfresh++
	name := fmt.Sprintf("%s!%d", sanitize(hint), l.nfresh)
	return l.declConst(name, s)
}

// define introduces a named constant equal to t (keeps formulas DAG-sized).
func (l *Log) define(hint string, t Term) Term {
	if len(t.S) < 24 || l.capture != nil {
		return t
	}
	c := l.fresh(hint, t.Sort)
	l.assert(eq(c, t))
	return c
}

func (l *Log) usesStrings() bool {
	for _, e := range l.entries {
		if strings.Contains(e.text, "Str") || strings.Contains(e.text, "str.") {
			return true
		}
	}
	return false
}

func (l *Log) addOblig(ob *Obligation) {
	ob.index = len(l.entries)
	l.entries = append(l.entries, logEntry{kind: eOblig, text: ob.Formula.S, ob: ob})
}

func sanitize(s string) string {
	var sb strings.Builder
	for _, c := range s {
		switch {
		case c >= 'a' && c <= 'z', c >= 'A' && c <= 'Z', c >= '0' && c <= '9', c == '_', c == '.', c == '$':
			sb.WriteRune(c)
		default:
			sb.WriteByte('_')
		}
	}
	if sb.Len() == 0 {
		return "v"
	}
	r := sb.String()
	if r[0] >= '0' && r[0] <= '9' {
		r = "v" + r
	}
	return r
}

const prelude = `(set-option :produce-models true)
(set-logic ALL)
(declare-sort Str 0)
(define-fun godiv ((a Int) (b Int)) Int (ite (>= a 0) (ite (> b 0) (div a b) (- (div a (- b)))) (ite (> b 0) (- (div (- a) b)) (div (- a) (- b)))))
(define-fun gomod ((a Int) (b Int)) Int (- a (* b (godiv a b))))
(define-fun rceil ((x Real)) Real (to_real (- (to_int (- x)))))
(define-fun rfloor ((x Real)) Real (to_real (to_int x)))
(define-fun rtrunc ((x Real)) Int (ite (>= x 0.0) (to_int x) (- (to_int (- x)))))
(define-fun rround ((x Real)) Real (ite (>= x 0.0) (to_real (to_int (+ x 0.5))) (to_real (- (to_int (+ (- x) 0.5))))))
(define-fun rmax ((a Real) (b Real)) Real (ite (>= a b) a b))
(define-fun rmin ((a Real) (b Real)) Real (ite (<= a b) a b))
(define-fun rabs ((a Real)) Real (ite (>= a 0.0) a (- a)))
(define-fun imax ((a Int) (b Int)) Int (ite (>= a b) a b))
(define-fun imin ((a Int) (b Int)) Int (ite (<= a b) a b))
(define-fun iabs ((a Int)) Int (ite (>= a 0) a (- a)))
`

const strPrelude = `(declare-fun str.len (Str) Int)
(declare-fun str.at (Str Int) Int)
(declare-fun str.cat (Str Str) Str)
(declare-fun str.sub (Str Int Int) Str)
(declare-fun str.contains (Str Str) Bool)
(declare-fun str.prefix (Str Str) Bool)
(declare-fun str.suffix (Str Str) Bool)
(declare-fun str.index (Str Str) Int)
(declare-fun str.lower (Str) Str)
(declare-fun str.upper (Str) Str)
(declare-const str.empty Str)
(assert (= (str.len str.empty) 0))
(assert (forall ((s Str)) (! (>= (str.len s) 0) :pattern ((str.len s)))))
(assert (forall ((s Str)) (! (=> (= (str.len s) 0) (= s str.empty)) :pattern ((str.len s)))))
(assert (forall ((a Str) (b Str)) (! (= (str.len (str.cat a b)) (+ (str.len a) (str.len b))) :pattern ((str.cat a b)))))
(assert (forall ((a Str) (b Str)) (! (and (str.contains (str.cat a b) a) (str.contains (str.cat a b) b)) :pattern ((str.cat a b)))))
(assert (forall ((a Str) (b Str) (c Str)) (! (=> (str.contains a c) (and (str.contains (str.cat a b) c) (str.contains (str.cat b a) c))) :pattern ((str.cat a b) (str.contains a c)) :pattern ((str.cat b a) (str.contains a c)))))
(assert (forall ((a Str)) (! (str.contains a a) :pattern ((str.contains a a)))))
(assert (forall ((a Str) (b Str)) (! (=> (str.contains a b) (<= (str.len b) (str.len a))) :pattern ((str.contains a b)))))
(assert (forall ((a Str) (b Str)) (! (=> (str.prefix a b) (<= (str.len b) (str.len a))) :pattern ((str.prefix a b)))))
(assert (forall ((a Str) (b Str)) (! (=> (str.suffix a b) (<= (str.len b) (str.len a))) :pattern ((str.suffix a b)))))
(assert (forall ((a Str) (b Str)) (! (and (>= (str.index a b) (- 1)) (=> (>= (str.index a b) 0) (<= (+ (str.index a b) (str.len b)) (str.len a)))) :pattern ((str.index a b)))))
(assert (forall ((a Str) (i Int) (j Int)) (! (=> (and (<= 0 i) (<= i j) (<= j (str.len a))) (= (str.len (str.sub a i j)) (- j i))) :pattern ((str.sub a i j)))))
(assert (forall ((a Str)) (! (= (str.cat a str.empty) a) :pattern ((str.cat a str.empty)))))
(assert (forall ((a Str)) (! (= (str.cat str.empty a) a) :pattern ((str.cat str.empty a)))))
`

// symbolsOf extracts the user symbols (declared names) occurring in an SMT-LIB text.
func symbolsOf(text string, into map[string]bool) {
	i := 0
	n := len(text)
	for i < n {
		c := text[i]
		if c == '(' || c == ')' || c == ' ' || c == '\n' || c == '\t' {
			i++
			continue
		}
		if c == ';' { // comment to end of line
			for i < n && text[i] != '\n' {
				i++
			}
			continue
		}
		if c == '"' {
			i++
			for i < n && text[i] != '"' {
				i++
			}
			i++
			continue
		}
		j := i
		for j < n && text[j] != '(' && text[j] != ')' && text[j] != ' ' && text[j] != '\n' && text[j] != '\t' {
			j++
		}
		tok := text[i:j]
		i = j
		if tok == "" {
			continue
		}
		c0 := tok[0]
		if (c0 >= '0' && c0 <= '9') || c0 == ':' || c0 == '-' || c0 == '+' || c0 == '*' || c0 == '/' || c0 == '<' || c0 == '>' || c0 == '=' || c0 == '!' {
			continue
		}
		if smtBuiltins[tok] {
			continue
		}
		into[tok] = true
	}
}

var smtBuiltins = map[string]bool{"and": true, "or": true, "not": true, "ite": true, "select": true, "store": true, "forall": true,
	"exists": true, "let": true, "distinct": true, "true": true, "false": true, "Int": true, "Real": true, "Bool": true, "Array": true,
	"to_real": true, "to_int": true, "div": true, "mod": true, "abs": true, "as": true, "const": true, "Str": true, "assert": true,
	"declare-const": true, "declare-fun": true, "define-fun": true, "godiv": true, "gomod": true, "rceil": true, "rfloor": true,
	"rtrunc": true, "rround": true, "rmax": true, "rmin": true, "rabs": true, "imax": true, "imin": true, "iabs": true, "is_int": true}

type querySection struct {
	text string
	syms map[string]bool
	decl string // declared symbol (for declarations)
}

// split a prelude text into top-level commands
func splitCommands(text string) []string {
	var out []string
	depth := 0
	start := -1
	for i := 0; i < len(text); i++ {
		switch text[i] {
		case ';':
			if depth == 0 {
				for i < len(text) && text[i] != '\n' {
					i++
				}
			}
		case '(':
			if depth == 0 {
				start = i
			}
			depth++
		case ')':
			depth--
			if depth == 0 && start >= 0 {
				// include trailing comment on the same line
				j := i + 1
				for j < len(text) && text[j] != '\n' {
					j++
				}
				out = append(out, text[start:j])
				i = j
				start = -1
			}
		}
	}
	return out
}

func declaredSymbol(cmd string) string {
	for _, p := range []string{"(declare-const ", "(declare-fun ", "(define-fun "} {
		if strings.HasPrefix(cmd, p) {
			rest := cmd[len(p):]
			if j := strings.IndexAny(rest, " )"); j > 0 {
				return rest[:j]
			}
		}
	}
	return ""
}

// buildQuery renders the SMT-LIB text that decides obligation ob. Only the cone of influence of the goal is
// emitted: assertions that (transitively) share an uninterpreted symbol with the goal. Dropping assumptions is
// sound for unsat answers; for sat answers the dropped part shares no symbol with the kept part.
// preludeRelevant decides whether a prelude section is worth keeping in a focused slice.
func preludeRelevant(s *querySection, rel map[string]bool) bool {
	text := s.text
	if !strings.Contains(text, ":pattern") {
		// ground fact: relevant when it mentions a relevant non-theory symbol (a literal)
		for sym := range s.syms {
			if rel[sym] && !strings.HasPrefix(sym, "str.") {
				return true
			}
		}
		return false
	}
	// every theory function the axiom mentions must already occur in the slice (an axiom about len() is useless, and
	// costly, for a goal that never mentions len())
	for sym := range s.syms {
		if strings.HasPrefix(sym, "str.") && sym != "str.empty" && !rel[sym] {
			return false
		}
	}
	rest := text
	for {
		k := strings.Index(rest, ":pattern (")
		if k < 0 {
			return false
		}
		rest = rest[k+len(":pattern "):]
		end := matchParen(rest, 0)
		if end < 0 {
			return false
		}
		group := rest[:end+1]
		syms := map[string]bool{}
		symbolsOf(group, syms)
		ok := false
		all := true
		for sym := range syms {
			if strings.HasPrefix(sym, "str.") && sym != "str.empty" {
				ok = true
				if !rel[sym] {
					all = false
				}
			}
		}
		if ok && all {
			return true
		}
		rest = rest[end+1:]
	}
}

// definedSymbol: for "(assert (= sym rhs))" and "(assert (=> c (= sym rhs)))" the symbol being defined.
func definedSymbol(text string) string {
	t := strings.TrimPrefix(text, "(assert ")
	if strings.HasPrefix(t, "(=> ") {
		// skip the guard (one token or one parenthesised group)
		r := t[4:]
		if strings.HasPrefix(r, "(") {
			d := 0
			for i := 0; i < len(r); i++ {
				if r[i] == '(' {
					d++
				} else if r[i] == ')' {
					d--
					if d == 0 {
						r = strings.TrimSpace(r[i+1:])
						break
					}
				}
			}
		} else if j := strings.IndexByte(r, ' '); j > 0 {
			r = r[j+1:]
		}
		t = r
	}
	if !strings.HasPrefix(t, "(= ") {
		return ""
	}
	r := t[3:]
	if strings.HasPrefix(r, "(") {
		return ""
	}
	if j := strings.IndexAny(r, " )"); j > 0 {
		return r[:j]
	}
	return ""
}

func (l *Log) buildQuery(ob *Obligation, extraPrelude string, focused bool) string {
	var goal string
	if ob.Smoke {
		goal = "(assert " + ob.Formula.S + ")"
	} else {
		goal = "(assert (not " + ob.Formula.S + "))"
	}
	var secs []*querySection
	addCmds := func(text string) {
		for _, cmd := range splitCommands(text) {
			s := &querySection{text: cmd, syms: map[string]bool{}, decl: declaredSymbol(cmd)}
			symbolsOf(cmd, s.syms)
			secs = append(secs, s)
		}
	}
	if l.usesStrings() || extraPrelude != "" {
		addCmds(strPrelude)
	}
	addCmds(extraPrelude)
	nPrelude := len(secs)
	for i := 0; i < ob.index; i++ {
		e := l.entries[i]
		var text string
		switch e.kind {
		case eDecl:
			text = e.text
		case eAssert:
			text = "(assert " + e.text + ")"
		case eOblig:
			if e.ob.Smoke || e.ob.kfUnrestricted {
				continue
			}
			text = "(assert " + e.text + ")"
		}
		s := &querySection{text: text, syms: map[string]bool{}, decl: declaredSymbol(text)}
		symbolsOf(text, s.syms)
		secs = append(secs, s)
	}
	// closure
	rel := map[string]bool{}
	symbolsOf(goal, rel)
	included := make([]bool, len(secs))
	extraDecl := map[string]bool{}
	if focused {
		// focused slice: follow definitions ("(= sym rhs)", "(=> c (= sym rhs))") of the symbols the goal mentions,
		// then add every other fact all of whose symbols are already relevant. Sound for unsat answers only.
		for changed := true; changed; {
			changed = false
			for i, s := range secs {
				if included[i] || s.decl != "" {
					continue
				}
				if d := definedSymbol(s.text); d != "" && rel[d] {
					included[i] = true
					changed = true
					for sym := range s.syms {
						rel[sym] = true
					}
				}
			}
		}
		for i, s := range secs {
			if included[i] || s.decl != "" {
				continue
			}
			all := len(s.syms) > 0
			any := false
			for sym := range s.syms {
				if !rel[sym] {
					all = false
				} else {
					any = true
				}
			}
			// prelude: a quantified axiom is kept when all function symbols of one of its patterns occur in the slice
			// (an axiom that cannot be triggered only costs time); a ground literal fact when its literal is relevant
			if i < nPrelude && !all {
				any = preludeRelevant(s, rel)
			}
			// short ground facts that touch the slice (type invariants such as 0 <= len <= cap, range facts, branch
			// conditions) are kept too: they are cheap, and without them a goal about one leaf of a value never sees
			// the invariant that ties it to its sibling leaves
			small := ob.Cheap && i >= nPrelude && any && len(s.text) <= 1500 && !strings.Contains(s.text, "(forall ") && !strings.Contains(s.text, "(exists ")
			if all || (i < nPrelude && any) || small {
				included[i] = true
				for sym := range s.syms {
					extraDecl[sym] = true // the functions they mention must be declared, but do not widen the slice
				}
			}
		}
	}
	for changed := !focused; changed; {
		changed = false
		for i, s := range secs {
			if included[i] || s.decl != "" {
				continue
			}
			hit := false
			for sym := range s.syms {
				if rel[sym] {
					hit = true
					break
				}
			}
			if !hit {
				continue
			}
			included[i] = true
			changed = true
			for sym := range s.syms {
				rel[sym] = true
			}
		}
	}
	if ob.Smoke {
		// vacuity checks look at everything
		for i, s := range secs {
			included[i] = true
			for sym := range s.syms {
				rel[sym] = true
			}
		}
	}
	var sb strings.Builder
	sb.WriteString(prelude)
	for i, s := range secs {
		if s.decl != "" {
			if rel[s.decl] || extraDecl[s.decl] {
				sb.WriteString(s.text)
				sb.WriteByte('\n')
			}
			continue
		}
		if included[i] {
			sb.WriteString(s.text)
			sb.WriteByte('\n')
		}
	}
	if ob.Smoke {
		// reachability: the guard must be satisfiable
		sb.WriteString("(assert " + ob.Formula.S + ")\n")
	} else {
		sb.WriteString("(assert (not " + ob.Formula.S + "))\n")
	}
	sb.WriteString("(check-sat)\n")
	var ins []string
	for _, in := range ob.Inputs {
		if rel[in] {
			ins = append(ins, in)
		}
	}
	if len(ins) > 0 {
		sb.WriteString("(get-value (" + strings.Join(ins, " ") + "))\n")
	}
	return sb.String()
}

// ---------------------------------------------------------------------------------------------
// Solver race

type solverSpec struct {
	name string
	argv func(file string, timeoutS int) []string
}

var solvers = []solverSpec{
	{"z3-new", func(f string, t int) []string { return []string{"z3-new", fmt.Sprintf("-T:%d", t), f} }},
	{"z3", func(f string, t int) []string { return []string{"z3", fmt.Sprintf("-T:%d", t), f} }},
	{"cvc5", func(f string, t int) []string {
		return []string{"cvc5", "--lang=smt2", fmt.Sprintf("--tlimit=%d", t*1000), f}
	}},
}

type solveResult struct {
	solver string
	status string // unsat sat unknown timeout error
	out    string
	ms     int64
}

func runSolver(ctx context.Context, sp solverSpec, file string, timeoutS int) solveResult {
	start := time.Now()
	if sp.name == "cvc5" {
		file += ".cvc5"
	}
	argv := sp.argv(file, timeoutS)
	cctx, cancel := context.WithTimeout(ctx, time.Duration(timeoutS+2)*time.Second)
	defer cancel()
	cmd := exec.CommandContext(cctx, argv[0], argv[1:]...)
	var out bytes.Buffer
	cmd.Stdout = &out
	cmd.Stderr = &out
	_ = cmd.Run()
	ms := time.Since(start).Milliseconds()
	text := out.String()
	first := ""
	for _, ln := range strings.Split(text, "\n") {
		// z3 prints warnings (e.g. about an `ite` inside a quantifier pattern) before the answer
		if ln = strings.TrimSpace(ln); ln != "" && !strings.HasPrefix(ln, "WARNING") {
			first = ln
			break
		}
	}
	st := "error"
	switch first {
	case "unsat", "sat", "unknown":
		st = first
	case "timeout":
		st = "timeout"
	default:
		if cctx.Err() != nil {
			st = "timeout"
		}
	}
	return solveResult{sp.name, st, text, ms}
}

// race runs all solvers on the file; returns the first definite answer. In agree mode it waits for
// all and reports every solver that said unsat.
func race(file string, timeoutS int, agree bool, cvc5OK bool) (solveResult, []solveResult) {
	ctx, cancel := context.WithCancel(context.Background())
	defer cancel()
	ch := make(chan solveResult, len(solvers))
	n := 0
	for _, sp := range solvers {
		if sp.name == "cvc5" && !cvc5OK {
			continue
		}
		n++
		go func(sp solverSpec) { ch <- runSolver(ctx, sp, file, timeoutS) }(sp)
	}
	var all []solveResult
	var best *solveResult
	start := time.Now()
	var grace <-chan time.Time
	for i := 0; i < n; i++ {
		var r solveResult
		select {
		case r = <-ch:
		case <-grace:
			// agreement mode: the other solvers got three times what the first definite answer took (at least 3 s);
			// a solver that needs longer is recorded as not having agreed in time, not waited for up to the full limit
			cancel()
			for j := i; j < n; j++ {
				r = <-ch
				if r.status != "unsat" && r.status != "sat" {
					r.status = "timeout"
				}
				all = append(all, r)
			}
			return *best, all
		}
		all = append(all, r)
		if (r.status == "unsat" || r.status == "sat") && best == nil {
			rr := r
			best = &rr
			if !agree {
				cancel()
				return *best, all
			}
			g := 3 * time.Since(start)
			if g < 3*time.Second {
				g = 3 * time.Second
			}
			grace = time.After(g)
		}
	}
	if best != nil {
		return *best, all
	}
	// no definite answer: prefer unknown over timeout over error
	pick := all[0]
	rank := map[string]int{"unknown": 0, "timeout": 1, "error": 2}
	for _, r := range all {
		if rank[r.status] < rank[pick.status] {
			pick = r
		}
	}
	return pick, all
}

type dischargeOpts struct {
	dir      string
	timeoutS int
	agree    bool
	workers  int
	focusedS int // limit of the focused-slice stage (default 4 s)
	sem      chan struct{} // shared limit on queries in flight when several functions are discharged concurrently
}

func discharge(l *Log, extraPrelude string, obs []*Obligation, o dischargeOpts) {
	_ = os.MkdirAll(o.dir, 0o755)
	var wg sync.WaitGroup
	sem := o.sem
	if sem == nil {
		sem = make(chan struct{}, o.workers)
	}
	for _, ob := range obs {
		wg.Add(1)
		sem <- struct{}{}
		go func(ob *Obligation) {
			defer wg.Done()
			defer func() { <-sem }()
			// the log position makes the name unique: sanitize maps distinct obligation names (`routes[i-1]`,
			// `routes[i+1]`) to one text, and two queries written to one file would answer for each other
			file := filepath.Join(o.dir, sanitize(ob.Name))
			if len(file) > 180 {
				file = file[:180]
			}
			file += fmt.Sprintf("_%d.smt2", ob.index)
			// the query files of an obligation that came out as expected are removed again (a property like C29 writes
			// 11 GB of them); those of a failing or undecided one stay for inspection. D2VC_KEEP_QUERIES=1 keeps all.
			defer func() {
				done := (ob.Smoke && ob.Result != "unsat") || (!ob.Smoke && ob.Result == "unsat")
				if done && os.Getenv("D2VC_KEEP_QUERIES") == "" {
					base := strings.TrimSuffix(file, ".smt2")
					for _, f := range []string{file, base + ".focused.smt2", base + ".ground.smt2"} {
						_ = os.Remove(f)
						_ = os.Remove(f + ".cvc5")
					}
				}
			}()
			o := o
			if ob.shortLimit && o.timeoutS > 10 {
				o.timeoutS = 10
			}
			if !ob.Smoke {
				// stage 1: focused slice (definitions of the goal's symbols + facts over them); unsat there is final
				fq := l.buildQuery(ob, extraPrelude, true)
				ff := strings.TrimSuffix(file, ".smt2") + ".focused.smt2"
				_ = os.WriteFile(ff, []byte(fq), 0o644)
				_ = os.WriteFile(ff+".cvc5", []byte(cvc5Variant(fq)), 0o644)
				ft := 4
				if o.focusedS > 0 {
					ft = o.focusedS
				}
				if o.timeoutS < ft {
					ft = o.timeoutS
				}
				best, all := race(ff, ft, o.agree, true)
				if best.status == "unsat" {
					ob.SmtFile = ff
					ob.Result, ob.Solver, ob.Ms, ob.Output = best.status, best.solver, best.ms, best.out
					for _, r := range all {
						if r.status == "unsat" {
							ob.Agree = append(ob.Agree, r.solver)
						}
					}
					return
				}
				if ob.Cheap {
					// package sweep: what the focused slice cannot prove quickly is simply not claimed
					ob.SmtFile = ff
					ob.Result, ob.Solver, ob.Ms, ob.Output = "unknown", best.solver, best.ms, "focused query only (package sweep): "+best.status
					return
				}
			}
			q := l.buildQuery(ob, extraPrelude, false)
			if !ob.Smoke {
				// stage 2: ground instance of the full query (goal skolemised, universal hypotheses instantiated at the
				// skolem constants, see sexpr.go); only unsat is accepted from it
				if gq, ok := groundQuery(q); ok {
					gf := strings.TrimSuffix(file, ".smt2") + ".ground.smt2"
					_ = os.WriteFile(gf, []byte(gq), 0o644)
					_ = os.WriteFile(gf+".cvc5", []byte(cvc5Variant(gq)), 0o644)
					gt := 6
					if o.timeoutS < gt {
						gt = o.timeoutS
					}
					best, all := race(gf, gt, o.agree, true)
					if best.status == "unsat" {
						ob.SmtFile = gf
						ob.Result, ob.Solver, ob.Ms, ob.Output = best.status, best.solver, best.ms, best.out
						for _, r := range all {
							if r.status == "unsat" {
								ob.Agree = append(ob.Agree, r.solver)
							}
						}
						return
					}
				}
			}
			_ = os.WriteFile(file, []byte(q), 0o644)
			// cvc5: a logic without the strings theory, so that the str.* symbols of the prelude are free
			_ = os.WriteFile(file+".cvc5", []byte(cvc5Variant(q)), 0o644)
			ob.SmtFile = file
			// cvc5 rejects some z3 extensions; queries here use only standard SMT-LIB
			limit := o.timeoutS
			if ob.Smoke && !o.agree && limit > 3 {
				// vacuity check: only `unsat` (contradictory hypotheses) matters; a satisfiable set usually makes the
				// solvers run into the limit, which in the quick tier is kept short
				limit = 3
			}
			best, all := race(file, limit, o.agree && !ob.Smoke, true)
			ob.Result, ob.Solver, ob.Ms, ob.Output = best.status, best.solver, best.ms, best.out
			for _, r := range all {
				if r.status == "unsat" {
					ob.Agree = append(ob.Agree, r.solver)
				}
			}
			if best.status == "sat" {
				ob.Model = best.out
			}
		}(ob)
	}
	wg.Wait()
}

// cvc5Variant: the query as cvc5 reads it. A logic without the strings theory (the str.* symbols of the prelude are
// free there), and no constant array over the uninterpreted string sort: cvc5 wants a value as the default element,
// so `((as const (Array Int Str)) str.empty)` becomes a declared array with the defining axiom.
func cvc5Variant(q string) string {
	q = strings.Replace(q, "(set-logic ALL)", "(set-logic AUFNIRA)", 1)
	const ca = "((as const (Array Int Str)) str.empty)"
	if i := strings.Index(q, ca); i >= 0 {
		ls := strings.LastIndex(q[:i], "\n") + 1
		decl := "(declare-const constarr!strempty (Array Int Str))\n(assert (forall ((i!ca Int)) (= (select constarr!strempty i!ca) str.empty)))\n"
		q = q[:ls] + decl + strings.ReplaceAll(q[ls:], ca, "constarr!strempty")
	}
	return q
}
