package main

// Symbolic execution of go/ssa (NaiveForm) functions with loop cutting: produces the fact log and
// the obligations of one function under contract.

import (
	"fmt"
	"go/ast"
	"go/token"
	"go/types"
	"sort"
	"strings"

	"golang.org/x/tools/go/ssa"
)

type blockOut struct {
	st    *State
	reach Term
	conds []Term // per successor
}

type retRec struct {
	reach Term
	st    *State
	vals  []Val
}

type deferRec struct {
	instr *ssa.Defer
	fnVal Val
	args  []Val
	guard Term
}

type loopInfo struct {
	head     *ssa.BasicBlock
	blocks   map[*ssa.BasicBlock]bool
	backs    []*ssa.BasicBlock
	stmt     ast.Stmt
	text     string
	ordinal  int
	spec     *LoopSpec
	mod      *modset
	rangeIdx *ssa.Alloc // hidden index of a range-over-slice loop
	rangeLen ssa.Value
	rangeIt  ssa.Value // *ssa.Range for string/map loops
	variant  *Term     // value of the decreases expression at the loop head
	pre      *State    // state in which the loop was entered
}

type callSite struct {
	name string
	ord  int
}

type act struct {
	e        *Engine
	fn       *ssa.Function
	spec     *FuncSpec
	vals     map[ssa.Value]Val
	top      bool
	depth    int
	entry    *State
	defers   []deferRec
	returns  []retRec
	sites    map[ssa.CallInstruction]callSite
	loops    map[*ssa.BasicBlock]*loopInfo
	curBlock *ssa.BasicBlock // block being executed (nil outside the body walk)
	outs     map[*ssa.BasicBlock]*blockOut
	order    []*ssa.BasicBlock
	rpoIdx   map[*ssa.BasicBlock]int
	freeVars []Val
	name     string
	caller   *act
	lets     map[string]Val // contract abbreviations, evaluated at entry
}

const maxInlineDepth = 6

func (e *Engine) newAct(fn *ssa.Function, caller *act) *act {
	a := &act{e: e, fn: fn, vals: map[ssa.Value]Val{}, outs: map[*ssa.BasicBlock]*blockOut{}, caller: caller, top: caller == nil}
	a.spec = e.specOf(fn)
	a.name = calleeName(fn)
	if caller != nil {
		a.depth = caller.depth + 1
	}
	a.analyzeCFG()
	a.numberCalls()
	return a
}

func (a *act) analyzeCFG() {
	fn := a.fn
	a.loops = map[*ssa.BasicBlock]*loopInfo{}
	if len(fn.Blocks) == 0 {
		return
	}
	// back edges: u->v with v dominating u
	for _, u := range fn.Blocks {
		for _, v := range u.Succs {
			if v.Dominates(u) {
				li := a.loops[v]
				if li == nil {
					li = &loopInfo{head: v, blocks: map[*ssa.BasicBlock]bool{v: true}}
					a.loops[v] = li
				}
				li.backs = append(li.backs, u)
			}
		}
	}
	for _, li := range a.loops {
		// natural loop
		var work []*ssa.BasicBlock
		for _, b := range li.backs {
			if !li.blocks[b] {
				li.blocks[b] = true
				work = append(work, b)
			}
		}
		for len(work) > 0 {
			b := work[len(work)-1]
			work = work[:len(work)-1]
			for _, p := range b.Preds {
				if !li.blocks[p] {
					li.blocks[p] = true
					work = append(work, p)
				}
			}
		}
	}
	// RPO over forward edges
	seen := map[*ssa.BasicBlock]bool{}
	var post []*ssa.BasicBlock
	var dfs func(b *ssa.BasicBlock)
	dfs = func(b *ssa.BasicBlock) {
		seen[b] = true
		for _, s := range b.Succs {
			if s.Dominates(b) { // back edge
				continue
			}
			if !seen[s] {
				dfs(s)
			}
		}
		post = append(post, b)
	}
	dfs(fn.Blocks[0])
	if fn.Recover != nil && !seen[fn.Recover] {
		// recover block unreachable by normal flow: ignored (recover() is outside the subset)
	}
	a.rpoIdx = map[*ssa.BasicBlock]int{}
	for i := len(post) - 1; i >= 0; i-- {
		a.rpoIdx[post[i]] = len(a.order)
		a.order = append(a.order, post[i])
	}
	// match loop heads with AST loops by order
	var heads []*ssa.BasicBlock
	for h := range a.loops {
		heads = append(heads, h)
	}
	sort.Slice(heads, func(i, j int) bool { return heads[i].Index < heads[j].Index })
	var body ast.Node
	switch s := fn.Syntax().(type) {
	case *ast.FuncDecl:
		body = s.Body
	case *ast.FuncLit:
		body = s
	}
	stmts := astLoops(body)
	if len(stmts) == len(heads) {
		for i, h := range heads {
			li := a.loops[h]
			li.stmt = stmts[i]
			li.text = a.e.loopHeader(stmts[i])
			li.ordinal = i + 1
		}
	} else {
		for i, h := range heads {
			a.loops[h].ordinal = i + 1
		}
	}
	// range-over-slice pattern: head loads a "rangeindex" alloc
	for _, li := range a.loops {
		for _, in := range li.head.Instrs {
			if u, ok := in.(*ssa.UnOp); ok && u.Op == token.MUL {
				if al, ok := u.X.(*ssa.Alloc); ok && al.Comment == "rangeindex" {
					li.rangeIdx = al
				}
			}
			if b, ok := in.(*ssa.BinOp); ok && b.Op == token.LSS && li.rangeIdx != nil {
				li.rangeLen = b.Y
			}
			if n, ok := in.(*ssa.Next); ok {
				li.rangeIt = n.Iter
			}
		}
	}
	// bind loop specs
	if a.spec != nil {
		for _, ls := range a.spec.Loops {
			var found *loopInfo
			for _, li := range a.loops {
				if li.text != "" && li.text == ls.Anchor {
					if found == nil || li.ordinal < found.ordinal {
						found = li
					}
				}
			}
			if found == nil && strings.HasPrefix(ls.Anchor, "#") {
				var k int
				fmt.Sscanf(ls.Anchor, "#%d", &k)
				for _, li := range a.loops {
					if li.ordinal == k {
						found = li
					}
				}
			}
			if found == nil {
				continue
			}
			if found.spec != nil && found.spec != ls {
				// several loops have this header text: the specs are bound to them in source order
				var next *loopInfo
				for _, li := range a.loops {
					if li.text == ls.Anchor && li.spec == nil && (next == nil || li.ordinal < next.ordinal) {
						next = li
					}
				}
				if next == nil {
					continue
				}
				found = next
			}
			found.spec = ls
		}
		// anchor drift: spec anchors whose text no longer occurs are bound, in order, to the loops that no spec
		// claimed, when the two sets have the same size (a loop header was edited, not added or removed)
		var freeSpecs []*LoopSpec
		bound := map[*LoopSpec]bool{}
		for _, li := range a.loops {
			if li.spec != nil {
				bound[li.spec] = true
			}
		}
		for _, ls := range a.spec.Loops {
			if !bound[ls] {
				freeSpecs = append(freeSpecs, ls)
			}
		}
		if len(freeSpecs) > 0 {
			var freeLoops []*loopInfo
			for _, li := range a.loops {
				if li.spec == nil {
					freeLoops = append(freeLoops, li)
				}
			}
			sort.Slice(freeLoops, func(i, j int) bool { return freeLoops[i].ordinal < freeLoops[j].ordinal })
			if len(freeLoops) == len(freeSpecs) {
				for i, ls := range freeSpecs {
					freeLoops[i].spec = ls
					if a.top && a.e.cur != nil {
						a.e.cur.drift = append(a.e.cur.drift, fmt.Sprintf("%s: loop anchor %q bound by position to %q", a.name, ls.Anchor, freeLoops[i].text))
					}
				}
			} else if a.top {
				for _, ls := range freeSpecs {
					a.e.cur.anchorErrs = append(a.e.cur.anchorErrs, fmt.Sprintf("%s/anchor:loop %s", a.name, ls.Anchor))
				}
			}
		}
	}
}

func (a *act) numberCalls() {
	a.sites = map[ssa.CallInstruction]callSite{}
	type cs struct {
		in   ssa.CallInstruction
		name string
		pos  token.Pos
		seq  int
	}
	var all []cs
	seq := 0
	for _, b := range a.fn.Blocks {
		for _, in := range b.Instrs {
			ci, ok := in.(ssa.CallInstruction)
			if !ok {
				continue
			}
			seq++
			all = append(all, cs{ci, siteName(ci.Common()), ci.Pos(), seq})
		}
	}
	sort.SliceStable(all, func(i, j int) bool {
		if all[i].pos != all[j].pos {
			return all[i].pos < all[j].pos
		}
		return all[i].seq < all[j].seq
	})
	count := map[string]int{}
	for _, c := range all {
		count[c.name]++
		a.sites[c.in] = callSite{c.name, count[c.name]}
	}
}

func siteName(c *ssa.CallCommon) string {
	if c.IsInvoke() {
		t := c.Value.Type()
		if n, ok := t.(*types.Named); ok {
			pkg := ""
			if n.Obj().Pkg() != nil {
				pkg = n.Obj().Pkg().Name() + "."
			}
			return pkg + n.Obj().Name() + "." + c.Method.Name()
		}
		return "interface." + c.Method.Name()
	}
	switch v := c.Value.(type) {
	case *ssa.Function:
		return calleeName(v)
	case *ssa.Builtin:
		return v.Name()
	case *ssa.MakeClosure:
		return calleeName(v.Fn.(*ssa.Function))
	}
	return "dynamic"
}

// ---------------------------------------------------------------------------------------------

func (a *act) obligation(kind, label string, pos token.Pos, guard, cond Term) {
	a.obligationX(kind, label, pos, guard, cond, false)
}

// obligationX: auto = helper obligation of a loop without contract (range-index bounds, frame); such obligations
// are not named in the ledger (their names follow the loop header text) but any failing one is reported.
func (a *act) obligationX(kind, label string, pos token.Pos, guard, cond Term, auto bool) {
	c := a.e.cur
	if c.discovery > 0 {
		return
	}
	f := implies(guard, cond)
	top := a
	for top.caller != nil {
		top = top.caller
	}
	if a != top {
		label = "(" + a.name + ") " + label
	}
	base := top.name + "/" + kind
	if label != "" {
		base += ":" + label
	}
	c.obNames[base]++
	name := base
	if n := c.obNames[base]; n > 1 {
		name = fmt.Sprintf("%s#%d", base, n)
	}
	if f.S == "true" {
		// trivially discharged at generation time; still recorded so that counts are stable
		ob := &Obligation{Name: name, Kind: kind, Pos: a.e.pos(pos), Formula: f, Fn: top.name, Result: "unsat", Solver: "simplifier", Auto: auto}
		ob.index = len(c.log.entries)
		c.obligations = append(c.obligations, ob)
		return
	}
	if kf := openFinding("", name); kf != nil && len(kf.Via) > 0 && c.topAct != nil {
		// open known finding identified by call sites: known to fail on the paths through one of these calls (of the
		// same iteration when the obligation is inside a loop); every other path must still be proved
		var through []Term
		ol := c.topAct.innermostLoop(c.topAct.curBlock)
		for _, site := range kf.Via {
			for _, vr := range c.viaReach[site] {
				if c.topAct.curBlock == nil || c.topAct.innermostLoop(vr.block) == ol {
					through = append(through, vr.reach)
				}
			}
		}
		un := &Obligation{Name: name + "?unrestricted", Kind: kind, Pos: a.e.pos(pos), Formula: f, Fn: top.name, Inputs: c.inputs, kfUnrestricted: true, kfName: name}
		c.log.addOblig(un)
		c.obligations = append(c.obligations, un)
		f = implies(and(guard, not(or(through...))), cond)
	} else if kf != nil && kf.Region != "" && c.topAct != nil {
		// open known finding: the obligation is split into the known-failing region (reported as KNOWN-FINDING)
		// and the rest, which must still be proved
		if rx, err := parseExpr(kf.Region); err == nil {
			env := c.topAct.entryEnv(c.topAct.entry)
			if rt, err := env.evalBool(rx); err == nil {
				un := &Obligation{Name: name + "?unrestricted", Kind: kind, Pos: a.e.pos(pos), Formula: f, Fn: top.name, Inputs: c.inputs, kfUnrestricted: true, kfName: name}
				c.log.addOblig(un)
				c.obligations = append(c.obligations, un)
				f = implies(and(guard, not(rt)), cond)
			} else {
				c.anchorErrs = append(c.anchorErrs, fmt.Sprintf("known finding region %q: %v", kf.Region, err))
			}
		} else {
			c.anchorErrs = append(c.anchorErrs, fmt.Sprintf("known finding region %q: %v", kf.Region, err))
		}
	}
	ob := &Obligation{Name: name, Kind: kind, Pos: a.e.pos(pos), Formula: f, Fn: top.name, Inputs: c.inputs, Auto: auto}
	c.log.addOblig(ob)
	c.obligations = append(c.obligations, ob)
}

// safety: an obligation when the function is under a safety sweep for this kind, otherwise the
// condition is assumed (partial correctness: execution continues only if the operation did not panic).
func (a *act) safety(kind, label string, pos token.Pos, guard, cond Term) {
	top := a
	for top.caller != nil {
		top = top.caller
	}
	if top.spec != nil && (top.spec.Sweep[kind] || top.spec.Sweep["all"]) {
		a.obligation(kind, label, pos, guard, cond)
		return
	}
	a.e.cur.log.assert(implies(guard, cond))
}

// run executes the function from st and returns the merged exit.
func (a *act) run(args []Val, st *State, reach Term) (*State, []Val, Term) {
	fn := a.fn
	if len(fn.Blocks) == 0 {
		panic("run: function without body " + a.name)
	}
	for i, p := range fn.Params {
		a.vals[p] = args[i]
	}
	for i, fv := range fn.FreeVars {
		if i < len(a.freeVars) {
			a.vals[fv] = a.freeVars[i]
		}
	}
	a.entry = st.clone()
	a.region(a.order, fn.Blocks[0], st, reach, nil)
	return a.mergeReturns()
}

func (a *act) mergeReturns() (*State, []Val, Term) {
	e := a.e
	if len(a.returns) == 0 {
		return nil, nil, tFalse
	}
	if len(a.returns) == 1 {
		r := a.returns[0]
		return r.st, r.vals, r.reach
	}
	var ins []inEdge
	var conds []Term
	for _, r := range a.returns {
		ins = append(ins, inEdge{r.reach, r.st})
		conds = append(conds, r.reach)
	}
	st := e.merge(ins)
	nres := len(a.returns[0].vals)
	out := make([]Val, nres)
	for k := 0; k < nres; k++ {
		v0 := a.returns[0].vals[k]
		same := true
		for _, r := range a.returns[1:] {
			if !valIdentical(v0, r.vals[k]) {
				same = false
			}
		}
		if same {
			out[k] = v0
			continue
		}
		ls := e.layout(v0.Typ)
		ts := make([]Term, len(ls))
		flats := make([][]Term, len(a.returns))
		for i, r := range a.returns {
			flats[i] = e.flat(r.vals[k])
		}
		for j := range ls {
			eqAll := true
			for i := 1; i < len(flats); i++ {
				if flats[i][j].S != flats[0][j].S {
					eqAll = false
				}
			}
			if eqAll {
				ts[j] = flats[0][j]
				continue
			}
			f := e.cur.log.fresh("ret"+ls[j].Path, ls[j].Sort)
			for i, r := range a.returns {
				e.cur.log.assert(implies(r.reach, eq(f, flats[i][j])))
			}
			ts[j] = f
		}
		out[k] = Val{Typ: v0.Typ, T: ts}
	}
	reach := e.cur.log.define("reach.exit", or(conds...))
	return st, out, reach
}

// region processes blocks (in RPO) starting at entry. If disc != nil this is a discovery pass for
// loop disc: entry == disc.head and the head is not cut again.
func (a *act) region(order []*ssa.BasicBlock, entry *ssa.BasicBlock, entrySt *State, entryReach Term, disc *loopInfo) {
	e := a.e
	log := func() *Log { return e.cur.log }
	for _, b := range order {
		var st *State
		var reach Term
		if b == entry {
			st, reach = entrySt, entryReach
		} else {
			var ins []inEdge
			var conds []Term
			for _, p := range b.Preds {
				if b.Dominates(p) { // back edge
					continue
				}
				po := a.outs[p]
				if po == nil {
					continue
				}
				if disc != nil && !disc.blocks[p] {
					continue
				}
				// condition for edge p->b (p may list b twice)
				var cs []Term
				for i, s := range p.Succs {
					if s == b {
						cs = append(cs, po.conds[i])
					}
				}
				c := and(po.reach, or(cs...))
				if c.S == "false" {
					continue
				}
				c = log().define("edge", c)
				ins = append(ins, inEdge{c, po.st})
				conds = append(conds, c)
			}
			if len(ins) == 0 {
				delete(a.outs, b)
				continue
			}
			st = e.merge(ins)
			reach = log().define(fmt.Sprintf("reach.b%d", b.Index), or(conds...))
		}
		if li := a.loops[b]; li != nil && !(disc != nil && disc.head == b) {
			st, reach = a.cutLoop(li, st, reach)
		}
		a.execBlock(b, st, reach, disc)
	}
}

// cutLoop: invariant on entry, havoc the loop-modified locations, assume invariant.
func (a *act) cutLoop(li *loopInfo, pre *State, reach Term) (*State, Term) {
	e := a.e
	if li.mod == nil {
		li.mod = a.discover(li, pre)
	}
	li.pre = pre.clone() // entry(e) in invariants of this loop
	// invariants on entry
	a.checkInvariants(li, pre, reach, "entry", li.head.Instrs[0].Pos())
	// havoc
	st := pre.clone()
	st.known = nil
	log := e.cur.log
	for _, k := range sortedLocalKeys(li.mod.locals) {
		leaves := li.mod.locals[k]
		v, ok := st.locals[k]
		if !ok {
			continue
		}
		if leaves == nil || v.T == nil {
			st.locals[k] = e.freshVal("hv", v.Typ, nil)
			continue
		}
		ls := e.layout(v.Typ)
		nt := make([]Term, len(v.T))
		copy(nt, v.T)
		for j, m := range leaves {
			if m {
				nt[j] = log.fresh("hv"+localName(k)+ls[j].Path, ls[j].Sort)
			}
		}
		nv := Val{Typ: v.Typ, T: nt}
		st.locals[k] = nv
	}
	if li.mod.alloc {
		na := log.fresh("alloc", SInt)
		log.assert(app(SBool, ">=", na, pre.alloc))
		st.alloc = na
	}
	for _, h := range sortedKeys(li.mod.heaps) {
		e.heapReplace(st, h, log.fresh(h, e.cur.heapSorts[h]))
	}
	for _, k := range sortedLocalKeys(li.mod.locals) {
		leaves := li.mod.locals[k]
		if v, ok := st.locals[k]; ok && leaves != nil {
			e.assumeWF(v, st)
		}
	}
	// assume invariants
	a.assumeInvariants(li, st, reach)
	if li.spec != nil && li.spec.Decreases != nil {
		if v, err := a.loopEnv(li, st).eval(li.spec.Decreases.E); err == nil && v.T != nil {
			t := log.define("variant", v.T[0])
			li.variant = &t
		} else if err != nil {
			a.specError(li.spec.Decreases, err)
		}
	}
	return st, reach
}

func localName(k any) string {
	switch x := k.(type) {
	case *ssa.Alloc:
		if x.Comment != "" {
			return "." + x.Comment
		}
		return "." + x.Name()
	case *ssa.Global:
		return "." + x.Name()
	}
	return ""
}

// discover runs the loop body once from an arbitrary state and diffs the states on the back edges.
func (a *act) discover(li *loopInfo, pre *State) *modset {
	e := a.e
	c := e.cur
	saveLog := c.log
	scratch := newLog()
	scratch.nfresh = saveLog.nfresh + 1000000*(c.discovery+1)
	c.log = scratch
	c.discovery++
	saveOuts := a.outs
	a.outs = map[*ssa.BasicBlock]*blockOut{}
	saveRet, saveDef := a.returns, a.defers
	// the values computed for the body's SSA names belong to the scratch log: forget them afterwards (a stale
	// reference of an Alloc inside the loop would otherwise be used by keepPrivate before the real pass re-executes
	// the Alloc)
	saveVals := make(map[ssa.Value]Val, len(a.vals))
	for k, v := range a.vals {
		saveVals[k] = v
	}
	defer func() {
		c.discovery--
		c.log = saveLog
		a.outs = saveOuts
		a.returns, a.defers = saveRet, saveDef
		a.vals = saveVals
	}()

	head := &State{locals: map[any]Val{}, heap: map[string]Term{}, epoch: fmt.Sprintf("d%d.%d", c.discovery, li.head.Index)}
	head.alloc = scratch.fresh("alloc", SInt)
	head.epochBound = head.alloc
	for _, k := range sortedLocalKeys(pre.locals) {
		v := pre.locals[k]
		if v.T == nil {
			head.locals[k] = v
			continue
		}
		head.locals[k] = e.freshVal("d", v.Typ, nil)
	}
	var order []*ssa.BasicBlock
	for _, b := range a.order {
		if li.blocks[b] {
			order = append(order, b)
		}
	}
	a.region(order, li.head, head.clone(), tTrue, li)
	m := &modset{locals: map[any][]bool{}, heaps: map[string]bool{}}
	for _, bk := range li.backs {
		bo := a.outs[bk]
		if bo == nil {
			continue
		}
		for k, hv := range head.locals {
			bv, ok := bo.st.locals[k]
			if !ok {
				continue
			}
			if hv.T == nil || bv.T == nil {
				if !valIdentical(hv, bv) {
					m.locals[k] = nil
				}
				continue
			}
			for j := range hv.T {
				if hv.T[j].S != bv.T[j].S {
					if _, ok := m.locals[k]; !ok {
						m.locals[k] = make([]bool, len(hv.T))
					}
					if m.locals[k] != nil {
						m.locals[k][j] = true
					}
				}
			}
		}
		for h, t := range bo.st.heap {
			if ht, ok := head.heap[h]; ok && ht.S == t.S {
				continue
			}
			if t.S == h+"@"+head.epoch {
				continue
			}
			m.heaps[h] = true
		}
		if bo.st.alloc.S != head.alloc.S {
			m.alloc = true
		}
	}
	return m
}

func (a *act) loopEnv(li *loopInfo, st *State) *specEnv {
	env := a.bodyEnv(st, li.head)
	env.loop = li
	return env
}

type autoInv struct {
	label string
	t     Term
}

func (a *act) autoInvariants(li *loopInfo, st *State) []autoInv {
	var out []autoInv
	if li.rangeIdx != nil && li.rangeLen != nil {
		if iv, ok := st.locals[li.rangeIdx]; ok && iv.T != nil {
			if lv, ok := a.vals[li.rangeLen]; ok && lv.T != nil {
				out = append(out, autoInv{"auto#1", and(app(SBool, "<=", intLit(-1), iv.T[0]), app(SBool, "<", iv.T[0], app(SInt, "imax", lv.T[0], intLit(0))))})
			}
		}
	}
	if li.rangeIt != nil {
		if pv, ok := st.locals[li.rangeIt]; ok && pv.T != nil {
			if it, ok := a.vals[li.rangeIt]; ok {
				if si, ok := it.Ext.(*StrIter); ok {
					out = append(out, autoInv{"auto#1", and(app(SBool, "<=", intLit(0), pv.T[0]), app(SBool, "<=", pv.T[0], app(SInt, "str.len", si.S.T[0])))})
				}
			}
		}
	}
	// frame: objects that existed at function entry and are outside the function's modifies clause are
	// unchanged at every loop head (for the heap families this loop writes)
	c := a.e.cur
	if fr := c.frame; fr != nil && !fr.anything && li.mod != nil {
		var hs []string
		for h := range li.mod.heaps {
			hs = append(hs, h)
		}
		sort.Strings(hs)
		for _, h := range hs {
			if fr.wild[h] || (strings.HasPrefix(h, "G_") && !a.e.moduleGhost(strings.TrimPrefix(h, "G_"))) {
				continue
			}
			srt, ok := c.heapSorts[h]
			if !ok {
				continue
			}
			h0 := a.e.heapGet(fr.entry, h, srt)
			h1 := a.e.heapGet(st, h, srt)
			if h0.S == h1.S {
				continue
			}
			out = append(out, autoInv{"frame:" + strings.TrimPrefix(h, "H_"), frameFormula(h0, h1, fr.entry.alloc, fr.targets[h])})
		}
	}
	return out
}

// frameFormula: every reference allocated before (r < alloc0) and not among targets has the same value in h1 as in h0.
func frameFormula(h0, h1, alloc0 Term, targets []Term) Term {
	r := Term{"r?frame", SInt}
	var excl []Term
	for _, t := range targets {
		excl = append(excl, app(SBool, "distinct", r, t))
	}
	body := implies(and(append([]Term{app(SBool, "<", intLit(0), r), app(SBool, "<", r, alloc0)}, excl...)...), eq(sel(h1, r), sel(h0, r)))
	return Term{fmt.Sprintf("(forall ((r?frame Int)) %s)", body.S), SBool}
}

func (a *act) checkInvariants(li *loopInfo, st *State, guard Term, when string, pos token.Pos) {
	tag := fmt.Sprintf("loop[%s]", li.anchorName())
	for _, ai := range a.autoInvariants(li, st) {
		a.obligationX("invariant", fmt.Sprintf("%s/%s:%s", tag, ai.label, when), pos, guard, ai.t, li.spec == nil || strings.HasPrefix(ai.label, "frame:"))
	}
	if li.spec == nil {
		return
	}
	env := a.loopEnv(li, st)
	for _, c := range li.spec.Invariants {
		t, err := env.evalBool(c.E)
		if err != nil {
			a.specError(c, err)
			continue
		}
		a.obligation("invariant", fmt.Sprintf("%s/%s:%s", tag, c.Label, when), pos, guard, t)
	}
}

func (a *act) assumeInvariants(li *loopInfo, st *State, guard Term) {
	for _, ai := range a.autoInvariants(li, st) {
		a.e.cur.log.assert(implies(guard, ai.t))
	}
	if li.spec == nil {
		return
	}
	env := a.loopEnv(li, st)
	for _, c := range li.spec.Invariants {
		t, err := env.evalBool(c.E)
		if err != nil {
			a.specError(c, err)
			continue
		}
		a.e.cur.log.assert(implies(guard, t))
	}
}

func (li *loopInfo) anchorName() string {
	if li.spec != nil {
		return li.spec.Anchor // stable even when the header text drifted
	}
	if li.stmt != nil && li.text != "" {
		return li.text
	}
	return fmt.Sprintf("#%d", li.ordinal)
}

func (a *act) specError(c *Clause, err error) {
	if a.e.cur.discovery > 0 {
		return
	}
	msg := fmt.Sprintf("%s: spec error in %q: %v", a.name, c.Text, err)
	for _, m := range a.e.cur.anchorErrs {
		if m == msg {
			return
		}
	}
	a.e.cur.anchorErrs = append(a.e.cur.anchorErrs, msg)
}

// ---------------------------------------------------------------------------------------------

func (a *act) val(v ssa.Value, st *State) Val {
	switch x := v.(type) {
	case *ssa.Const:
		return a.e.constVal(x)
	case *ssa.Global:
		return Val{Typ: x.Type(), Ext: &LocPtr{Kind: pkGlobal, G: x, Key: x, BaseType: x.Type().(*types.Pointer).Elem()}}
	case *ssa.Function:
		return Val{Typ: x.Type(), Ext: &Closure{Fn: x}}
	case *ssa.Builtin:
		return Val{Typ: x.Type()}
	}
	if r, ok := a.vals[v]; ok {
		return r
	}
	// value not yet defined on this path (should not happen for dominating defs)
	a.e.cur.abstracted("use of undefined SSA value " + v.Name())
	return a.e.freshVal("undef."+v.Name(), v.Type(), st)
}

func (a *act) execBlock(b *ssa.BasicBlock, st *State, reach Term, disc *loopInfo) {
	e := a.e
	out := &blockOut{st: st, reach: reach}
	a.outs[b] = out
	a.curBlock = b
	for _, in := range b.Instrs {
		switch x := in.(type) {
		case *ssa.If:
			c := a.val(x.Cond, st).one()
			out.conds = []Term{c, not(c)}
			a.checkBackEdges(b, st, reach, out.conds)
			return
		case *ssa.Jump:
			out.conds = []Term{tTrue}
			a.checkBackEdges(b, st, reach, out.conds)
			return
		case *ssa.Return:
			vals := make([]Val, len(x.Results))
			for i, r := range x.Results {
				vals[i] = a.val(r, st)
			}
			if disc == nil {
				a.returns = append(a.returns, retRec{reach, st, vals})
			}
			return
		case *ssa.Panic:
			a.handlePanic(x, st, reach)
			return
		default:
			st2 := a.execInstr(in, st, reach)
			if st2 != nil {
				st = st2
				out.st = st
			}
		}
	}
	_ = e
}

func (a *act) checkBackEdges(b *ssa.BasicBlock, st *State, reach Term, conds []Term) {
	for i, s := range b.Succs {
		if !s.Dominates(b) {
			continue
		}
		li := a.loops[s]
		if li == nil {
			continue
		}
		g := and(reach, conds[i])
		pos := token.NoPos
		if len(b.Instrs) > 0 {
			pos = b.Instrs[len(b.Instrs)-1].Pos()
		}
		a.checkInvariants(li, st, g, "preserved", pos)
		if li.spec != nil && li.spec.Decreases != nil && a.e.cur.discovery == 0 {
			// variant: value at head (assumed state is not kept; re-evaluate in head-out state is not possible
			// after mutation), so the head value is captured when the head block is executed
			if li.variant != nil {
				env := a.loopEnv(li, st)
				nv, err := env.eval(li.spec.Decreases.E)
				if err == nil && nv.T != nil {
					a.obligation("decreases", fmt.Sprintf("loop[%s]", li.anchorName()), pos, g,
						and(app(SBool, ">=", *li.variant, intLit(0)), app(SBool, "<", nv.T[0], *li.variant)))
				} else if err != nil {
					a.specError(li.spec.Decreases, err)
				}
			}
		}
	}
}

func (a *act) handlePanic(x *ssa.Panic, st *State, reach Term) {
	// allowed when a "panics when" clause covers it (top-level function only)
	if a.spec != nil && len(a.spec.Panics) > 0 && a.top {
		env := a.entryEnv(a.entry)
		var allowed []Term
		for _, c := range a.spec.Panics {
			t, err := env.evalBool(c.E)
			if err != nil {
				a.specError(c, err)
				continue
			}
			allowed = append(allowed, t)
		}
		a.obligation("panic", a.e.panicLabel(x), x.Pos(), reach, or(allowed...))
		return
	}
	a.obligation("panic", a.e.panicLabel(x), x.Pos(), reach, tFalse)
}

func (e *Engine) panicLabel(x *ssa.Panic) string {
	if mi, ok := x.X.(*ssa.MakeInterface); ok {
		if c, ok := mi.X.(*ssa.Const); ok && c.Value != nil {
			s := c.Value.ExactString()
			if len(s) > 40 {
				s = s[:40]
			}
			return s
		}
	}
	return "explicit"
}

type viaRec struct {
	block *ssa.BasicBlock
	reach Term
}

// innermostLoop: the smallest loop whose body contains b (nil when b is in no loop).
func (a *act) innermostLoop(b *ssa.BasicBlock) *loopInfo {
	var inner *loopInfo
	if b == nil {
		return nil
	}
	for _, li := range a.loops {
		if li.blocks[b] && (inner == nil || len(li.blocks) < len(inner.blocks)) {
			inner = li
		}
	}
	return inner
}
