package main

import (
	"fmt"
	"go/types"
	"sort"

	"golang.org/x/tools/go/ssa"
)

// State: symbolic store. locals are keyed by *ssa.Alloc / *ssa.Range / *ssa.Global; heap maps by
// family name; alloc is the allocation counter (every allocated ref is < alloc).
type State struct {
	locals map[any]Val
	heap   map[string]Term
	alloc  Term
	epoch  string
	known  map[string][]Val // contents of small heap arrays allocated by this function (varargs), by ref term
	// every reference stored in a heap family is below the allocation counter at the time the family was last
	// written (hbound), or below epochBound for families not written since the start / the last full havoc
	hbound     map[string]Term
	epochBound Term
}

func (s *State) clone() *State {
	n := &State{locals: make(map[any]Val, len(s.locals)), heap: make(map[string]Term, len(s.heap)), alloc: s.alloc, epoch: s.epoch, epochBound: s.epochBound}
	if len(s.hbound) > 0 {
		n.hbound = make(map[string]Term, len(s.hbound))
		for k, v := range s.hbound {
			n.hbound[k] = v
		}
	}
	for k, v := range s.locals {
		n.locals[k] = v
	}
	for k, v := range s.heap {
		n.heap[k] = v
	}
	if len(s.known) > 0 {
		n.known = make(map[string][]Val, len(s.known))
		for k, v := range s.known {
			n.known[k] = append([]Val{}, v...)
		}
	}
	return n
}

// heap family names -----------------------------------------------------------------------------

// objHeap: leaf map of objects of type T (pointer targets): Array Int τ
func objHeapName(t types.Type, leaf string) string {
	return "H_" + sanitize(typeKey(t)) + sanitize(leaf)
}

// elemHeap: slice backing arrays with element type T: Array Int (Array Int τ)
func elemHeapName(t types.Type, leaf string) string {
	return "E_" + sanitize(typeKey(t)) + sanitize(leaf)
}

func (e *Engine) heapGet(st *State, name string, sort Sort) Term {
	if t, ok := st.heap[name]; ok {
		return t
	}
	e.cur.heapSorts[name] = sort
	return e.cur.log.declConst(name+"@"+st.epoch, sort)
}

// heapVersion: a constant that identifies the whole heap content of st (same content => same constant).
func (e *Engine) heapVersion(st *State) Term {
	names := make([]string, 0, len(st.heap))
	for k := range st.heap {
		names = append(names, k)
	}
	sort.Strings(names)
	var sb []byte
	sb = append(sb, st.epoch...)
	for _, k := range names {
		sb = append(sb, '|')
		sb = append(sb, k...)
		sb = append(sb, '=')
		sb = append(sb, st.heap[k].S...)
	}
	sig := string(sb)
	if e.cur.hvers == nil {
		e.cur.hvers = map[string]Term{}
	}
	t, ok := e.cur.hvers[sig]
	if !ok {
		t = Term{fmt.Sprintf("hver!%d", len(e.cur.hvers)), SInt}
		e.cur.hvers[sig] = t
	}
	return e.cur.log.declConst(t.S, SInt) // (re)declared in whichever log is active
}

func (e *Engine) heapSet(st *State, name string, t Term) {
	e.cur.heapSorts[name] = t.Sort
	st.heap[name] = e.cur.log.define(name, t)
	if st.hbound == nil {
		st.hbound = map[string]Term{}
	}
	st.hbound[name] = st.alloc
}

// inEdge is one incoming control-flow edge for a merge.
type inEdge struct {
	cond Term
	st   *State
}

func (e *Engine) merge(ins []inEdge) *State {
	if len(ins) == 1 {
		return ins[0].st.clone()
	}
	log := e.cur.log
	out := &State{locals: map[any]Val{}, heap: map[string]Term{}, epoch: ins[0].st.epoch}
	// locals: keys present in all
	for _, k := range sortedLocalKeys(ins[0].st.locals) {
		v0 := ins[0].st.locals[k]
		all := true
		for _, in := range ins[1:] {
			if _, ok := in.st.locals[k]; !ok {
				all = false
				break
			}
		}
		if !all {
			continue
		}
		// Ext-valued
		same := true
		for _, in := range ins[1:] {
			if !valIdentical(v0, in.st.locals[k]) {
				same = false
				break
			}
		}
		if same {
			out.locals[k] = v0
			continue
		}
		// leafwise merge (descriptor values are abstracted)
		n := len(e.layout(v0.Typ))
		ts := make([]Term, n)
		flats := make([][]Term, len(ins))
		for i, in := range ins {
			flats[i] = e.flat(in.st.locals[k])
		}
		ls := e.layout(v0.Typ)
		for j := 0; j < n; j++ {
			eqAll := true
			for i := 1; i < len(ins); i++ {
				if flats[i][j].S != flats[0][j].S {
					eqAll = false
					break
				}
			}
			if eqAll {
				ts[j] = flats[0][j]
				continue
			}
			f := log.fresh("m"+ls[j].Path, ls[j].Sort)
			for i, in := range ins {
				log.assert(implies(in.cond, eq(f, flats[i][j])))
			}
			ts[j] = f
		}
		out.locals[k] = Val{Typ: v0.Typ, T: ts}
	}
	// heaps
	names := map[string]bool{}
	for _, in := range ins {
		for k := range in.st.heap {
			names[k] = true
		}
	}
	var sorted []string
	for k := range names {
		sorted = append(sorted, k)
	}
	sort.Strings(sorted)
	for _, k := range sorted {
		srt := e.cur.heapSorts[k]
		t0 := e.heapGet(ins[0].st, k, srt)
		same := true
		for _, in := range ins[1:] {
			if e.heapGet(in.st, k, srt).S != t0.S {
				same = false
				break
			}
		}
		if same {
			out.heap[k] = t0
			continue
		}
		f := log.fresh(k, srt)
		for _, in := range ins {
			log.assert(implies(in.cond, eq(f, e.heapGet(in.st, k, srt))))
		}
		out.heap[k] = f
	}
	// known arrays: keep only entries identical on all edges
	for k, v0 := range ins[0].st.known {
		same := true
		for _, in := range ins[1:] {
			v1, ok := in.st.known[k]
			if !ok || len(v1) != len(v0) {
				same = false
				break
			}
			for i := range v0 {
				if !valIdentical(v0[i], v1[i]) {
					same = false
				}
			}
		}
		if same {
			if out.known == nil {
				out.known = map[string][]Val{}
			}
			out.known[k] = v0
		}
	}
	// alloc
	a0 := ins[0].st.alloc
	same := true
	for _, in := range ins[1:] {
		if in.st.alloc.S != a0.S {
			same = false
		}
	}
	if same {
		out.alloc = a0
	} else {
		f := log.fresh("alloc", SInt)
		for _, in := range ins {
			log.assert(implies(in.cond, eq(f, in.st.alloc)))
		}
		out.alloc = f
	}
	// allocation bounds of heap families: identical on all edges, else the merged counter (an upper bound)
	bnd := func(s *State, k string) Term {
		if b, ok := s.hbound[k]; ok {
			return b
		}
		return s.epochBound
	}
	out.epochBound = ins[0].st.epochBound
	for _, in := range ins[1:] {
		if in.st.epochBound.S != out.epochBound.S {
			out.epochBound = out.alloc
		}
	}
	hb := map[string]bool{}
	for _, in := range ins {
		for k := range in.st.hbound {
			hb[k] = true
		}
	}
	for k := range hb {
		b0 := bnd(ins[0].st, k)
		for _, in := range ins[1:] {
			if bnd(in.st, k).S != b0.S {
				b0 = out.alloc
				break
			}
		}
		if out.hbound == nil {
			out.hbound = map[string]Term{}
		}
		out.hbound[k] = b0
	}
	return out
}

// Deterministic iteration: the fact log (fresh-name numbering, assertion order) must be the same on every run for
// the same source, otherwise solver behaviour varies from run to run.
func localKeyOrder(k any) string {
	switch x := k.(type) {
	case *ssa.Alloc:
		fn := ""
		if x.Parent() != nil {
			fn = x.Parent().String()
		}
		return fmt.Sprintf("a|%s|%010d|%s", fn, x.Pos(), x.Name())
	case *ssa.Range:
		return fmt.Sprintf("r|%010d|%s", x.Pos(), x.Name())
	case *ssa.Global:
		return "g|" + x.String()
	}
	return fmt.Sprintf("z|%T|%v", k, k)
}

func sortedLocalKeys[V any](m map[any]V) []any {
	keys := make([]any, 0, len(m))
	for k := range m {
		keys = append(keys, k)
	}
	sort.Slice(keys, func(i, j int) bool { return localKeyOrder(keys[i]) < localKeyOrder(keys[j]) })
	return keys
}

func sortedKeys[V any](m map[string]V) []string {
	keys := make([]string, 0, len(m))
	for k := range m {
		keys = append(keys, k)
	}
	sort.Strings(keys)
	return keys
}

// heapBound: every reference stored in heap family name is below this allocation counter.
func (s *State) heapBound(name string) Term {
	if b, ok := s.hbound[name]; ok {
		return b
	}
	return s.epochBound
}

// heapReplace installs a new (havocked) term for a family.
func (e *Engine) heapReplace(st *State, name string, t Term) {
	st.heap[name] = t
	if st.hbound == nil {
		st.hbound = map[string]Term{}
	}
	st.hbound[name] = st.alloc
}

func valIdentical(a, b Val) bool {
	if (a.Ext == nil) != (b.Ext == nil) {
		return false
	}
	if a.Ext != nil {
		switch x := a.Ext.(type) {
		case *LocPtr:
			y, ok := b.Ext.(*LocPtr)
			if !(ok && x.equal(y)) {
				return false
			}
			return true
		default:
			if a.Ext != b.Ext {
				return false
			}
		}
	}
	if len(a.T) != len(b.T) {
		return false
	}
	for i := range a.T {
		if a.T[i].S != b.T[i].S {
			return false
		}
	}
	return true
}

// modset: what a loop body may change (found by the discovery pass)
type modset struct {
	locals map[any][]bool // per leaf; nil slice = whole value (descriptor changed)
	heaps  map[string]bool
	alloc  bool
}

func (m *modset) String() string {
	var hs []string
	for h := range m.heaps {
		hs = append(hs, h)
	}
	sort.Strings(hs)
	return fmt.Sprintf("locals=%d heaps=%v alloc=%v", len(m.locals), hs, m.alloc)
}
