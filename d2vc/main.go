package main

import (
	"flag"
	"fmt"
	"os"
	"path/filepath"
	"regexp"
	"sort"
	"strconv"
	"strings"
	"sync"
	"time"

	"go/types"

	"golang.org/x/tools/go/ssa"
)

func usage() {
	fmt.Fprintln(os.Stderr, `usage:
  d2vc dump <pkg-pattern> <func>          print SSA of a function
  d2vc check -prop <id> [-tier quick|thorough] [-repo /repo] [-verif /verif]
  d2vc selftest [-prop <id>]              must-fail / must-pass corpus
  d2vc replay -prop <id> -file <replay.json>`)
	os.Exit(2)
}

func main() {
	if len(os.Args) < 2 {
		usage()
	}
	// the repository needs a go >= 1.25 driver; everything runs offline
	os.Setenv("PATH", "/opt/veriftools/go1.26.8/bin:"+os.Getenv("PATH"))
	os.Setenv("GOTOOLCHAIN", "local")
	os.Setenv("GOFLAGS", "-mod=mod")
	os.Setenv("GOPROXY", "off")
	os.Setenv("GOSUMDB", "off")
	switch os.Args[1] {
	case "dump":
		cmdDump(os.Args[2:])
	case "check":
		os.Exit(cmdCheck(os.Args[2:]))
	case "selftest":
		os.Exit(cmdSelftest(os.Args[2:]))
	case "replay":
		os.Exit(cmdReplay(os.Args[2:]))
	default:
		usage()
	}
}

func cmdDump(args []string) {
	if len(args) < 2 {
		usage()
	}
	e, err := loadEngine("/repo", []string{args[0]}, nil)
	if err != nil {
		fmt.Fprintln(os.Stderr, err)
		os.Exit(1)
	}
	for p, sp := range e.spkg {
		if !strings.HasPrefix(p, modPath) {
			continue
		}
		if fn := e.findFunc(p, args[1]); fn != nil {
			fn.WriteTo(os.Stdout)
			for _, an := range fn.AnonFuncs {
				an.WriteTo(os.Stdout)
			}
		}
		_ = sp
	}
}

// contractPackages scans the repo for contract files mentioning the property and returns package patterns.
func contractPackages(repo, prop string) ([]string, error) {
	var pats []string
	re := regexp.MustCompile(`\b` + regexp.QuoteMeta(prop) + `\b`)
	err := filepath.Walk(repo, func(path string, info os.FileInfo, err error) error {
		if err != nil {
			return nil
		}
		if info.IsDir() {
			if strings.HasPrefix(info.Name(), ".") && path != repo {
				return filepath.SkipDir
			}
			if info.Name() == "node_modules" {
				return filepath.SkipDir
			}
			return nil
		}
		if info.Name() != "zz_verif_contracts.go" {
			return nil
		}
		data, err := os.ReadFile(path)
		if err != nil {
			return nil
		}
		if prop == "" || re.Match(data) {
			rel, _ := filepath.Rel(repo, filepath.Dir(path))
			pats = append(pats, "./"+rel)
		}
		return nil
	})
	sort.Strings(pats)
	return pats, err
}

var sweepSkipped []string

type funcResult struct {
	fs  *FuncSpec
	fn  *ssa.Function
	ctx *vctx
	gen time.Duration
}

type checkOpts struct {
	repo, verif, prop, tier string
	timeoutS               int
	agree                  bool
	overlay                map[string][]byte
	only                   string
	keepSMT                bool
	workDir                string
	skipUnclaimed          bool
	quiet                  bool
	noRetry                bool // dev / ledger update: report first-pass results and timings
}

// runProperty loads, generates and discharges everything tagged with the property.
func runProperty(o checkOpts) ([]*funcResult, *Engine, []string, error) {
	pats, err := contractPackages(o.repo, o.prop)
	if err != nil {
		return nil, nil, nil, err
	}
	if len(pats) == 0 {
		return nil, nil, nil, fmt.Errorf("no contract file mentions %s", o.prop)
	}
	e, err := loadEngine(o.repo, pats, o.overlay)
	if err != nil {
		return nil, nil, nil, err
	}
	e.curProp = o.prop
	var problems []string
	problems = append(problems, e.loadErrs...)
	extern := filepath.Join(o.verif, "specs", "externals.spec")
	var externFiles []string
	if _, err := os.Stat(extern); err == nil {
		externFiles = append(externFiles, extern)
	}
	if err := e.loadContracts(o.repo, externFiles); err != nil {
		return nil, e, nil, err
	}
	problems = append(problems, e.bindSpecs()...)
	var results []*funcResult
	var keys []string
	for k := range e.specByKey {
		keys = append(keys, k)
	}
	sort.Strings(keys)
	for _, k := range keys {
		fs := e.specByKey[k]
		if !hasProp(fs.Props, o.prop) || fs.Trusted || fs.NoBody {
			continue
		}
		if o.only != "" && !matchOnly(k, o.only) {
			continue
		}
		fn := e.findFunc(fs.Pkg, fs.Name)
		if fn == nil {
			continue
		}
		t0 := time.Now()
		ctx := e.verifyFunc(fn, fs)
		results = append(results, &funcResult{fs: fs, fn: fn, ctx: ctx, gen: time.Since(t0)})
	}
	// package sweeps: every function of the package without a contract of its own
	for _, cf := range e.files {
		if cf.PkgSweep == nil || !hasProp(cf.PkgSweep.Props, o.prop) {
			continue
		}
		sp := e.spkg[cf.Pkg]
		if sp == nil {
			continue
		}
		var fns []*ssa.Function
		seen := map[*ssa.Function]bool{}
		add := func(fn *ssa.Function) {
			if fn == nil || seen[fn] || fn.Synthetic != "" || len(fn.Blocks) == 0 || fn.Name() == "init" || strings.HasPrefix(fn.Name(), "init#") {
				return
			}
			if e.specOf(fn) != nil {
				return
			}
			if fn.Pkg != sp {
				return
			}
			seen[fn] = true
			fns = append(fns, fn)
		}
		for _, m := range sp.Members {
			switch x := m.(type) {
			case *ssa.Function:
				add(x)
			case *ssa.Type:
				for _, T := range []types.Type{x.Type(), types.NewPointer(x.Type())} {
					ms := e.prog.MethodSets.MethodSet(T)
					for i := 0; i < ms.Len(); i++ {
						add(e.prog.MethodValue(ms.At(i)))
					}
				}
			}
		}
		sort.Slice(fns, func(i, j int) bool { return calleeName(fns[i]) < calleeName(fns[j]) })
		for _, fn := range fns {
			if o.only != "" && !matchOnly(calleeName(fn), o.only) {
				continue
			}
			fs := &FuncSpec{Name: strings.TrimPrefix(calleeName(fn), sp.Pkg.Name()+"."), Pkg: cf.Pkg, Props: cf.PkgSweep.Props, Sweep: cf.PkgSweep.Kinds, NoFrame: true, Cheap: true}
			t0 := time.Now()
			ctx := e.verifyFunc(fn, fs)
			if len(ctx.anchorErrs) > 0 {
				// not analysable by the generator: no claim, no alarm
				sweepSkipped = append(sweepSkipped, ctx.fn+": "+trunc(ctx.anchorErrs[0], 120))
				continue
			}
			for _, ob := range ctx.obligations {
				ob.Cheap = true
			}
			results = append(results, &funcResult{fs: fs, fn: fn, ctx: ctx, gen: time.Since(t0)})
		}
	}
	for _, lem := range e.lemmas {
		if !hasProp(lem.Props, o.prop) {
			continue
		}
		if o.only != "" && !matchOnly(lem.Name, o.only) {
			continue
		}
		t0 := time.Now()
		ctx := e.verifyLemma(lem)
		results = append(results, &funcResult{fs: &FuncSpec{Name: "lemma." + lem.Name}, ctx: ctx, gen: time.Since(t0)})
	}
	// discharge
	dir := filepath.Join(o.verif, "work", o.prop)
	if o.workDir != "" {
		dir = o.workDir
	}
	_ = os.RemoveAll(dir)
	var skip, unclaimedRef map[string]string
	if ent := loadLedger(o.verif)[o.prop]; ent != nil {
		if o.skipUnclaimed {
			skip = ent.Unclaimed
		} else if o.tier == "thorough" {
			// thorough: obligations that did not discharge on the reference tree are tried again, but with the
			// quick limit (they are not part of the claim; with the long limit they alone would take hours)
			unclaimedRef = ent.Unclaimed
		}
	}
	// first pass: the functions are discharged concurrently, with one shared limit on the queries in flight (each
	// query races up to three solver processes, the losers are killed at the first definite answer)
	inFlight := 5 // x3 solver processes on 16 cores: more than this inflates the solver times of the slower obligations
	if v := os.Getenv("D2VC_WORKERS"); v != "" {
		if n, err := strconv.Atoi(v); err == nil && n > 0 {
			inFlight = n
		}
	}
	sem := make(chan struct{}, inFlight)
	var fwg sync.WaitGroup
	for _, r := range results {
		var obs []*Obligation
		for _, ob := range r.ctx.obligations {
			if ob.Result == "" {
				if _, un := skip[ob.group()]; un && !ob.Auto && !ob.Smoke {
					// recorded as undecided on the reference tree: not part of the claim, not re-tried in the quick tier
					ob.Result, ob.Solver = "skipped-unclaimed", "-"
					continue
				}
				if _, un := unclaimedRef[ob.group()]; un && !ob.Auto && !ob.Smoke {
					ob.shortLimit = true
				}
				obs = append(obs, ob)
			}
		}
		if len(obs) == 0 {
			continue
		}
		fwg.Add(1)
		go func(r *funcResult, obs []*Obligation) {
			defer fwg.Done()
			discharge(r.ctx.log, r.ctx.litPrelude(), obs, dischargeOpts{dir: filepath.Join(dir, sanitize(r.ctx.fn)), timeoutS: o.timeoutS, agree: o.agree, sem: sem})
		}(r, obs)
	}
	fwg.Wait()
	// Second pass against load-induced time-outs: a claimed (or helper) obligation that got no definite answer
	// (unknown/timeout, never sat) is decided once more with three times the limits and only two queries in flight.
	// A longer limit can only turn "undecided" into a definite answer, so this cannot hide a failure; it is capped
	// so that a change that breaks many obligations is not slowed down (then nothing is retried).
	if !o.noRetry {
		claimed := map[string]bool{}
		if ent := loadLedger(o.verif)[o.prop]; ent != nil {
			for _, n := range ent.Claimed {
				claimed[n] = true
			}
		}
		const maxRetry = 60
		n := 0
		perFn := make([][]*Obligation, len(results))
		for i, r := range results {
			for _, ob := range r.ctx.obligations {
				if ob.Smoke || ob.kfUnrestricted || (ob.Result != "unknown" && ob.Result != "timeout") {
					continue
				}
				if claimed[ob.group()] || ob.Auto {
					perFn[i] = append(perFn[i], ob)
					n++
				}
			}
		}
		if n > 0 && n <= maxRetry {
			for i, r := range results {
				if len(perFn[i]) == 0 {
					continue
				}
				for _, ob := range perFn[i] {
					ob.Retried = true
					ob.Agree = nil
				}
				discharge(r.ctx.log, r.ctx.litPrelude(), perFn[i], dischargeOpts{dir: filepath.Join(dir, sanitize(r.ctx.fn)), timeoutS: 3 * o.timeoutS, focusedS: 12, agree: o.agree, workers: 2})
			}
			// third pass, one query at a time with six times the limits, for what is still undecided (heavy load)
			left := 0
			for i := range results {
				var still []*Obligation
				for _, ob := range perFn[i] {
					if ob.Result == "unknown" || ob.Result == "timeout" {
						still = append(still, ob)
					}
				}
				perFn[i] = still
				left += len(still)
			}
			if left > 0 && left <= 12 {
				for i, r := range results {
					if len(perFn[i]) == 0 {
						continue
					}
					for _, ob := range perFn[i] {
						ob.Agree = nil
					}
					discharge(r.ctx.log, r.ctx.litPrelude(), perFn[i], dischargeOpts{dir: filepath.Join(dir, sanitize(r.ctx.fn)), timeoutS: 6 * o.timeoutS, focusedS: 30, agree: o.agree, workers: 1})
				}
			}
		}
	}
	return results, e, problems, nil
}

// matchOnly: name contains one of the '|'-separated alternatives of only.
func matchOnly(name, only string) bool {
	for _, alt := range strings.Split(only, "|") {
		if alt != "" && strings.Contains(name, alt) {
			return true
		}
	}
	return false
}

func hasProp(ps []string, p string) bool {
	for _, x := range ps {
		if x == p {
			return true
		}
	}
	return false
}

// litPrelude declares the string literals used by the function and the ground facts about them.
func (c *vctx) litPrelude() string {
	var sb strings.Builder
	if len(c.litOrder) == 0 {
		return ""
	}
	for i, s := range c.litOrder {
		fmt.Fprintf(&sb, "(declare-const lit!%d Str) ; %q\n", i, trunc(s, 60))
		fmt.Fprintf(&sb, "(assert (= (str.len lit!%d) %d))\n", i, len(s))
	}
	if len(c.litOrder) > 1 {
		sb.WriteString("(assert (distinct str.empty")
		for i := range c.litOrder {
			fmt.Fprintf(&sb, " lit!%d", i)
		}
		sb.WriteString("))\n")
	} else {
		sb.WriteString("(assert (distinct str.empty lit!0))\n")
	}
	name := func(s string) string {
		if s == "" {
			return "str.empty"
		}
		return c.lits[s].S
	}
	all := append([]string{""}, c.litOrder...)
	for _, pred := range sortedKeys(c.strPredLits) {
		lits := c.strPredLits[pred]
		for _, b := range all {
			if !lits[name(b)] {
				continue
			}
			for _, a := range all {
				var v bool
				var fn string
				switch pred {
				case "contains":
					v, fn = strings.Contains(a, b), "str.contains"
				case "prefix":
					v, fn = strings.HasPrefix(a, b), "str.prefix"
				case "suffix":
					v, fn = strings.HasSuffix(a, b), "str.suffix"
				}
				if v {
					fmt.Fprintf(&sb, "(assert (%s %s %s))\n", fn, name(a), name(b))
				} else {
					fmt.Fprintf(&sb, "(assert (not (%s %s %s)))\n", fn, name(a), name(b))
				}
			}
		}
	}
	// lower/upper of literals when the image is a literal too
	for _, s := range c.litOrder {
		if l := strings.ToLower(s); l != s {
			if t, ok := c.lits[l]; ok {
				fmt.Fprintf(&sb, "(assert (= (str.lower %s) %s))\n", name(s), t.S)
			}
		} else {
			fmt.Fprintf(&sb, "(assert (= (str.lower %s) %s))\n", name(s), name(s))
		}
		if len(s) <= 12 {
			for i := 0; i < len(s); i++ {
				fmt.Fprintf(&sb, "(assert (= (str.at %s %d) %d))\n", name(s), i, s[i])
			}
		}
	}
	return sb.String()
}

func trunc(s string, n int) string {
	if len(s) > n {
		return s[:n] + "…"
	}
	return s
}

func cmdCheck(args []string) int {
	fs := flag.NewFlagSet("check", flag.ExitOnError)
	prop := fs.String("prop", "", "property id")
	tier := fs.String("tier", "quick", "quick|thorough")
	repo := fs.String("repo", "/repo", "repository")
	verif := fs.String("verif", "/verif", "verif dir")
	only := fs.String("only", "", "only functions containing this text")
	dev := fs.Bool("dev", false, "development mode: print every obligation, ignore ledger")
	dbg := fs.Bool("panic", false, "do not recover generator panics")
	update := fs.Bool("update-ledger", false, "rewrite the ledger entry of this property from the current results")
	fs.Parse(args)
	debugPanic = *dbg
	if *prop == "" {
		usage()
	}
	o := checkOpts{repo: *repo, verif: *verif, prop: *prop, tier: *tier, timeoutS: 10, only: *only}
	if *tier == "thorough" {
		o.timeoutS = 60
		o.agree = true
	} else if !*dev && !*update {
		o.skipUnclaimed = true
	}
	o.noRetry = *dev || *update
	start := time.Now()
	activeFindings = loadFindings(*verif)
	results, e, problems, err := runProperty(o)
	if err != nil {
		fmt.Fprintln(os.Stderr, "d2vc:", err)
		return 2
	}
	if *dev {
		return devReport(results, problems, start)
	}
	return finishCheck(o, results, e, problems, start, *update)
}

func devReport(results []*funcResult, problems []string, start time.Time) int {
	for _, p := range problems {
		fmt.Println("PROBLEM:", p)
	}
	bad := 0
	for _, r := range results {
		fmt.Printf("== %s  (gen %v, %d log entries)\n", r.ctx.fn, r.gen.Round(time.Millisecond), len(r.ctx.log.entries))
		for _, m := range r.ctx.anchorErrs {
			fmt.Println("   SPEC-ERROR:", m)
			bad++
		}
		for _, ob := range r.ctx.obligations {
			status := ob.Result
			okk := status == "unsat"
			if ob.Smoke {
				okk = status != "unsat"
			}
			mark := "ok  "
			if !okk {
				mark = "FAIL"
				bad++
			}
			fmt.Printf("   %s %-8s %-7s %5dms  %s\n", mark, status, ob.Solver, ob.Ms, ob.Name)
			if !okk && ob.Model != "" && !ob.Smoke {
				fmt.Printf("        model: %s\n", strings.Join(strings.Fields(ob.Model), " "))
			}
			if !okk {
				fmt.Printf("        file: %s  (%s)\n", ob.SmtFile, ob.Pos)
			}
		}
		if len(r.ctx.abstractions) > 0 {
			fmt.Printf("   abstractions: %v\n", r.ctx.abstractions)
		}
		if len(r.ctx.opaqueCalls) > 0 {
			fmt.Printf("   opaque calls: %v\n", r.ctx.opaqueCalls)
		}
		if len(r.ctx.inlined) > 0 {
			fmt.Printf("   inlined: %v\n", r.ctx.inlined)
		}
	}
	fmt.Printf("total %v, failures %d\n", time.Since(start).Round(time.Millisecond), bad)
	if bad > 0 {
		return 1
	}
	return 0
}
