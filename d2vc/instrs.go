package main

import (
	"fmt"
	"go/token"
	"go/types"
	"strings"

	"golang.org/x/tools/go/ssa"
)

// execInstr interprets one non-terminator instruction. It mutates st in place (st is owned by the
// current block) and returns nil, or returns a replacement state.
func (a *act) execInstr(in ssa.Instruction, st *State, reach Term) *State {
	e := a.e
	log := e.cur.log
	switch x := in.(type) {
	case *ssa.DebugRef:
		return nil
	case *ssa.Alloc:
		et := x.Type().(*types.Pointer).Elem()
		if at, ok := et.Underlying().(*types.Array); ok && x.Heap {
			// heap arrays are slice backing stores: elements live in the element heap of their type
			r := a.freshRef(st, x.Comment)
			for _, l := range e.layout(at.Elem()) {
				name := elemHeapName(at.Elem(), l.Path)
				srt := arrSort(SInt, arrSort(SInt, l.Sort))
				h := e.heapGet(st, name, srt)
				z := Term{fmt.Sprintf("((as const (Array Int %s)) %s)", l.Sort, zeroOf(l.Sort).S), arrSort(SInt, l.Sort)}
				e.heapSet(st, name, store(h, r, z))
			}
			if at.Len() <= 128 {
				if st.known == nil {
					st.known = map[string][]Val{}
				}
				vs := make([]Val, at.Len())
				for i := range vs {
					vs[i] = e.zero(at.Elem())
				}
				st.known[r.S] = vs
			}
			a.vals[x] = Val{Typ: x.Type(), T: []Term{r}}
		} else if x.Heap {
			r := a.newObject(et, st, x.Comment)
			a.vals[x] = Val{Typ: x.Type(), T: []Term{r}}
		} else {
			st.locals[x] = e.zero(et)
			a.vals[x] = Val{Typ: x.Type(), Ext: &LocPtr{Kind: pkLocal, Key: x, BaseType: et}}
		}
	case *ssa.Store:
		addr := a.val(x.Addr, st)
		v := a.val(x.Val, st)
		a.storeTo(addr, v, st, reach, x.Pos())
	case *ssa.UnOp:
		a.vals[x] = a.unop(x, st, reach)
	case *ssa.BinOp:
		a.vals[x] = a.binop(x, st, reach)
	case *ssa.Convert:
		a.vals[x] = a.convert(a.val(x.X, st), x.X.Type(), x.Type(), st)
	case *ssa.ChangeType:
		v := a.val(x.X, st)
		a.vals[x] = Val{Typ: x.Type(), T: v.T, Ext: v.Ext}
	case *ssa.MultiConvert:
		a.vals[x] = a.convert(a.val(x.X, st), x.X.Type(), x.Type(), st)
	case *ssa.Field:
		v := a.val(x.X, st)
		if v.T == nil {
			a.vals[x] = e.freshVal("field", x.Type(), st)
			e.cur.abstracted("Field of descriptor value")
		} else {
			a.vals[x] = e.fieldVal(v, x.Field)
		}
	case *ssa.FieldAddr:
		a.vals[x] = a.fieldAddr(x, st, reach)
	case *ssa.IndexAddr:
		a.vals[x] = a.indexAddr(x, st, reach)
	case *ssa.Index:
		a.vals[x] = a.indexVal(x, st, reach)
	case *ssa.Slice:
		a.vals[x] = a.sliceOp(x, st, reach)
	case *ssa.MakeSlice:
		ln := a.val(x.Len, st).one()
		cp := a.val(x.Cap, st).one()
		a.safety("makeslice-len", a.srcOf(x), x.Pos(), reach, and(app(SBool, "<=", intLit(0), ln), app(SBool, "<=", ln, cp)))
		et := x.Type().Underlying().(*types.Slice).Elem()
		arr := a.freshRef(st, "mkslice")
		// zero-initialised contents
		for _, l := range e.layout(et) {
			name := elemHeapName(et, l.Path)
			srt := arrSort(SInt, arrSort(SInt, l.Sort))
			h := e.heapGet(st, name, srt)
			z := Term{fmt.Sprintf("((as const (Array Int %s)) %s)", l.Sort, zeroOf(l.Sort).S), arrSort(SInt, l.Sort)}
			e.heapSet(st, name, store(h, arr, z))
		}
		a.vals[x] = Val{Typ: x.Type(), T: []Term{arr, intLit(0), ln, cp}}
	case *ssa.MakeMap:
		r := a.freshRef(st, "mkmap")
		mt := x.Type().Underlying().(*types.Map)
		if mh := e.mapHeaps(mt); mh != nil {
			d := e.heapGet(st, mh.dom, mh.domSort)
			empty := Term{fmt.Sprintf("((as const (Array %s Bool)) false)", mh.keySort), arrSort(mh.keySort, SBool)}
			e.heapSet(st, mh.dom, store(d, r, empty))
		}
		a.vals[x] = Val{Typ: x.Type(), T: []Term{r}}
	case *ssa.MakeInterface:
		a.vals[x] = a.makeInterface(a.val(x.X, st), x.X.Type(), x.Type(), st)
	case *ssa.ChangeInterface:
		v := a.val(x.X, st)
		a.vals[x] = Val{Typ: x.Type(), T: v.T, Ext: v.Ext}
	case *ssa.TypeAssert:
		a.vals[x] = a.typeAssert(x, st, reach)
	case *ssa.Extract:
		tv := a.val(x.Tuple, st)
		tup := x.Tuple.Type().(*types.Tuple)
		if ks, ok := tv.Ext.(*KnownSlice); ok && ks != nil && x.Index < len(ks.Elems) {
			a.vals[x] = ks.Elems[x.Index]
			break
		}
		off := 0
		for i := 0; i < x.Index; i++ {
			off += len(e.layout(tup.At(i).Type()))
		}
		n := len(e.layout(tup.At(x.Index).Type()))
		a.vals[x] = Val{Typ: x.Type(), T: e.flat(tv)[off : off+n]}
	case *ssa.Phi:
		a.vals[x] = a.phi(x, st)
	case *ssa.Lookup:
		a.vals[x] = a.lookup(x, st, reach)
	case *ssa.MapUpdate:
		a.mapUpdate(x, st, reach)
	case *ssa.Range:
		xv := a.val(x.X, st)
		switch x.X.Type().Underlying().(type) {
		case *types.Basic:
			st.locals[x] = Val{Typ: types.Typ[types.Int], T: []Term{intLit(0)}}
			a.vals[x] = Val{Typ: x.Type(), Ext: &StrIter{S: xv, Key: x}}
		default:
			a.vals[x] = Val{Typ: x.Type(), Ext: &MapIter{M: xv, Key: x}}
		}
	case *ssa.Next:
		a.vals[x] = a.next(x, st, reach)
	case *ssa.MakeClosure:
		fn := x.Fn.(*ssa.Function)
		c := &Closure{Fn: fn}
		for _, b := range x.Bindings {
			c.Bindings = append(c.Bindings, a.val(b, st))
		}
		a.vals[x] = Val{Typ: x.Type(), Ext: c}
	case *ssa.Call:
		v, st2 := a.call(x, st, reach)
		a.vals[x] = v
		return st2
	case *ssa.Defer:
		if e.cur.discovery > 0 || a.blockInLoop(x.Block()) {
			e.cur.abstracted("defer inside loop")
		}
		d := deferRec{instr: x, guard: reach}
		d.fnVal = a.val(x.Call.Value, st)
		for _, arg := range x.Call.Args {
			d.args = append(d.args, a.val(arg, st))
		}
		a.defers = append(a.defers, d)
	case *ssa.RunDefers:
		return a.runDefers(st, reach)
	case *ssa.Go, *ssa.Send, *ssa.Select, *ssa.MakeChan:
		e.cur.abstracted(fmt.Sprintf("unsupported instruction %T", in))
		if v, ok := in.(ssa.Value); ok {
			a.vals[v] = e.freshVal("unsup", v.Type(), st)
		}
		a.havocAll(st)
	case *ssa.SliceToArrayPointer:
		a.vals[x] = e.freshVal("s2a", x.Type(), st)
		e.cur.abstracted("SliceToArrayPointer")
	default:
		e.cur.abstracted(fmt.Sprintf("unsupported instruction %T", in))
		if v, ok := in.(ssa.Value); ok {
			a.vals[v] = e.freshVal("unsup", v.Type(), st)
		}
	}
	_ = log
	return nil
}

func (a *act) blockInLoop(b *ssa.BasicBlock) bool {
	for _, li := range a.loops {
		if li.blocks[b] {
			return true
		}
	}
	return false
}

func (a *act) srcOf(n interface{ Pos() token.Pos }) string {
	// short source text is not always recoverable from SSA; use instruction string
	if v, ok := n.(ssa.Instruction); ok {
		s := v.String()
		if len(s) > 60 {
			s = s[:60]
		}
		return s
	}
	return ""
}

// freshRef allocates a new reference.
func (a *act) freshRef(st *State, hint string) Term {
	log := a.e.cur.log
	r := log.fresh("ref."+hint, SInt)
	log.assert(and(app(SBool, ">=", r, st.alloc), app(SBool, ">", r, intLit(0))))
	st.alloc = log.define("alloc", app(SInt, "+", r, intLit(1)))
	return r
}

// newObject allocates a zero-initialised object of type t and returns its ref.
func (a *act) newObject(t types.Type, st *State, hint string) Term {
	e := a.e
	r := a.freshRef(st, hint)
	for _, l := range e.layout(t) {
		name := objHeapName(t, l.Path)
		h := e.heapGet(st, name, arrSort(SInt, l.Sort))
		e.heapSet(st, name, store(h, r, zeroOf(l.Sort)))
	}
	// ghost state with a declared initial value (e.g. a zero bytes.Buffer is empty)
	for _, sfName := range sortedKeys(e.specFuncs) {
		sf := e.specFuncs[sfName]
		if !sf.Ghost || sf.Body == nil || len(sf.Params) != 1 {
			continue
		}
		env := e.newEnv(a, st)
		pt, err := env.parseType(sf.Params[0].Type)
		if err != nil {
			continue
		}
		pp, ok := pt.Underlying().(*types.Pointer)
		if !ok || typeKey(pp.Elem()) != typeKey(t) {
			continue
		}
		dv, err := env.eval(sf.Body.E)
		if err != nil || len(dv.T) != 1 {
			continue
		}
		name := "G_" + sf.Name
		h := e.heapGet(st, name, arrSort(SInt, dv.T[0].Sort))
		e.heapSet(st, name, store(h, r, dv.T[0]))
	}
	return r
}

// ---------------------------------------------------------------------------------------------
// memory

func (a *act) nilCheck(ref Term, st *State, reach Term, pos token.Pos, what string) {
	if isLiteralTerm(ref) && ref.S != "0" {
		return
	}
	a.safety("nil-deref", what, pos, reach, app(SBool, "distinct", ref, intLit(0)))
}

// loadFrom reads the value a pointer designates.
func (a *act) loadFrom(ptr Val, st *State, reach Term, pos token.Pos, what string) Val {
	e := a.e
	pt, ok := ptr.Typ.Underlying().(*types.Pointer)
	if !ok {
		return e.freshVal("load", ptr.Typ, st)
	}
	et := pt.Elem()
	if lp, ok := ptr.Ext.(*LocPtr); ok && lp != nil {
		return a.loadLoc(lp, et, st)
	}
	if ptr.T == nil {
		e.cur.abstracted("load through unknown pointer")
		return e.freshVal("load", et, st)
	}
	ref := ptr.T[0]
	a.nilCheck(ref, st, reach, pos, what)
	return a.loadLoc(&LocPtr{Kind: pkHeap, Base: ref, BaseType: et}, et, st)
}

func (a *act) loadLoc(lp *LocPtr, et types.Type, st *State) Val {
	e := a.e
	switch lp.Kind {
	case pkLocal, pkGlobal:
		v, ok := st.locals[lp.Key]
		if !ok {
			if lp.Kind == pkGlobal {
				v = a.globalInit(lp.G, st)
			} else {
				e.cur.abstracted("load of unknown local")
				return e.freshVal("load", et, st)
			}
		}
		if len(lp.Path) == 0 {
			return v
		}
		if v.T == nil {
			e.cur.abstracted("path into descriptor local")
			return e.freshVal("load", et, st)
		}
		off, n, ft := e.sub(lp.BaseType, lp.Path)
		return Val{Typ: ft, T: v.T[off : off+n]}
	case pkHeap:
		off, n, ft := e.sub(lp.BaseType, lp.Path)
		ls := e.layout(lp.BaseType)
		ts := make([]Term, n)
		bounds := make([]Term, n)
		for i := 0; i < n; i++ {
			l := ls[off+i]
			name := objHeapName(lp.BaseType, l.Path)
			h := e.heapGet(st, name, arrSort(SInt, l.Sort))
			ts[i] = sel(h, lp.Base)
			bounds[i] = st.heapBound(name)
		}
		v := Val{Typ: ft, T: ts}
		e.assumeWFb(v, st, bounds)
		return v
	case pkElem:
		off, n, ft := e.sub(lp.BaseType, lp.Path)
		ls := e.layout(lp.BaseType)
		ts := make([]Term, n)
		bounds := make([]Term, n)
		for i := 0; i < n; i++ {
			l := ls[off+i]
			name := elemHeapName(lp.BaseType, l.Path)
			h := e.heapGet(st, name, arrSort(SInt, arrSort(SInt, l.Sort)))
			ts[i] = sel(sel(h, lp.Base), lp.Idx)
			bounds[i] = st.heapBound(name)
		}
		v := Val{Typ: ft, T: ts}
		e.assumeWFb(v, st, bounds)
		return v
	}
	panic("loadLoc")
}

func (a *act) storeTo(ptr Val, v Val, st *State, reach Term, pos token.Pos) {
	e := a.e
	if lp, ok := ptr.Ext.(*LocPtr); ok && lp != nil {
		a.storeLoc(lp, v, st)
		return
	}
	if ptr.T == nil {
		e.cur.abstracted("store through unknown pointer")
		a.havocAll(st)
		return
	}
	pt, ok := ptr.Typ.Underlying().(*types.Pointer)
	if !ok {
		e.cur.abstracted("store through non-pointer")
		return
	}
	ref := ptr.T[0]
	a.nilCheck(ref, st, reach, pos, "store")
	a.storeLoc(&LocPtr{Kind: pkHeap, Base: ref, BaseType: pt.Elem()}, v, st)
}

func (a *act) storeLoc(lp *LocPtr, v Val, st *State) {
	e := a.e
	switch lp.Kind {
	case pkLocal, pkGlobal:
		if len(lp.Path) == 0 {
			st.locals[lp.Key] = v
			return
		}
		cur, ok := st.locals[lp.Key]
		if !ok {
			if lp.Kind == pkGlobal {
				cur = a.globalInit(lp.G, st)
			} else {
				cur = e.zero(lp.BaseType)
			}
		}
		if cur.T == nil {
			cur = Val{Typ: cur.Typ, T: e.flat(cur)}
		}
		st.locals[lp.Key] = e.withField(cur, lp.Path, v)
	case pkHeap:
		off, n, _ := e.sub(lp.BaseType, lp.Path)
		ls := e.layout(lp.BaseType)
		src := e.flat(v)
		if len(src) != n {
			panic(fmt.Sprintf("storeLoc: %d leaves into %d (%v into %v%v)", len(src), n, v.Typ, lp.BaseType, lp.Path))
		}
		for i := 0; i < n; i++ {
			l := ls[off+i]
			name := objHeapName(lp.BaseType, l.Path)
			h := e.heapGet(st, name, arrSort(SInt, l.Sort))
			e.heapSet(st, name, store(h, lp.Base, castSort(src[i], l.Sort)))
		}
	case pkElem:
		off, n, _ := e.sub(lp.BaseType, lp.Path)
		ls := e.layout(lp.BaseType)
		if kn, ok := st.known[lp.Base.S]; ok {
			if isIntLit(lp.Idx.S) && len(lp.Path) == 0 {
				var k int
				fmt.Sscanf(lp.Idx.S, "%d", &k)
				if k < len(kn) {
					kn[k] = v
				}
			} else {
				delete(st.known, lp.Base.S)
			}
		}
		src := e.flat(v)
		for i := 0; i < n; i++ {
			l := ls[off+i]
			name := elemHeapName(lp.BaseType, l.Path)
			h := e.heapGet(st, name, arrSort(SInt, arrSort(SInt, l.Sort)))
			inner := sel(h, lp.Base)
			e.heapSet(st, name, store(h, lp.Base, store(inner, lp.Idx, castSort(src[i], l.Sort))))
		}
	}
}

func castSort(t Term, s Sort) Term {
	if t.Sort == s {
		return t
	}
	if t.Sort == SInt && s == SReal {
		return toReal(t)
	}
	return t
}

func (a *act) globalInit(g *ssa.Global, st *State) Val {
	e := a.e
	et := g.Type().(*types.Pointer).Elem()
	if v, ok := e.constGlobal(g); ok {
		st.locals[g] = v
		return v
	}
	if v, ok := e.constSliceGlobal(g); ok {
		st.locals[g] = v
		return v
	}
	ls := e.layout(et)
	ts := make([]Term, len(ls))
	for i, l := range ls {
		ts[i] = e.cur.log.declConst("g."+sanitize(g.Pkg.Pkg.Name()+"."+g.Name()+l.Path)+"@"+st.epoch, l.Sort)
	}
	v := Val{Typ: et, T: ts}
	e.assumeWF(v, st)
	st.locals[g] = v
	return v
}

func (a *act) havocAll(st *State) {
	e := a.e
	oldHeap := make(map[string]Term, len(st.heap))
	for k, v := range st.heap {
		oldHeap[k] = v
	}
	oldEpoch := st.epoch
	defer a.keepPrivate(st, oldHeap, oldEpoch)
	for _, name := range sortedKeys(e.cur.heapSorts) {
		st.heap[name] = e.cur.log.fresh(name, e.cur.heapSorts[name])
	}
	st.known = nil
	// heaps never touched so far are represented by a new epoch
	st.epoch = fmt.Sprintf("%s.h%d", st.epoch, e.cur.log.nfresh)
	e.cur.log.nfresh++
	for _, k := range sortedLocalKeys(st.locals) {
		v := st.locals[k]
		if g, ok := k.(*ssa.Global); ok {
			if _, isConst := e.constGlobal(g); !isConst {
				st.locals[k] = e.freshVal("g", v.Typ, st)
			}
		}
		if al, ok := k.(*ssa.Alloc); ok && al.Heap {
			st.locals[k] = e.freshVal("esc", v.Typ, st)
		}
	}
	st.hbound = nil
	na := e.cur.log.fresh("alloc", SInt)
	st.epochBound = na
	e.cur.log.assert(app(SBool, ">=", na, st.alloc))
	st.alloc = na
}

// ---------------------------------------------------------------------------------------------
// address computations

func (a *act) fieldAddr(x *ssa.FieldAddr, st *State, reach Term) Val {
	e := a.e
	base := a.val(x.X, st)
	bt := x.X.Type().Underlying().(*types.Pointer).Elem()
	if lp, ok := base.Ext.(*LocPtr); ok && lp != nil {
		np := *lp
		np.Path = append(append([]pathStep{}, lp.Path...), pathStep{Field: x.Field})
		return Val{Typ: x.Type(), Ext: &np}
	}
	if base.T == nil {
		e.cur.abstracted("FieldAddr on unknown pointer")
		return Val{Typ: x.Type()}
	}
	// named after the dereferenced expression as written (`resolvedField.Primary().Value`), so that dereferences of
	// different expressions of one type are separate obligation groups
	what := a.fieldName(bt, x.Field)
	if s, ok := bt.Underlying().(*types.Struct); ok && x.Field < s.NumFields() {
		if xt := a.exprText(x.X); xt != "" && !strings.Contains(xt, "…") {
			what = xt + "." + s.Field(x.Field).Name()
		}
	}
	a.nilCheck(base.T[0], st, reach, x.Pos(), what)
	return Val{Typ: x.Type(), Ext: &LocPtr{Kind: pkHeap, Base: base.T[0], BaseType: bt, Path: []pathStep{{Field: x.Field}}}}
}

func (a *act) fieldName(t types.Type, i int) string {
	if s, ok := t.Underlying().(*types.Struct); ok && i < s.NumFields() {
		n := ""
		if nt, ok := t.(*types.Named); ok {
			n = nt.Obj().Name()
		}
		return n + "." + s.Field(i).Name()
	}
	return "field"
}

func (a *act) indexAddr(x *ssa.IndexAddr, st *State, reach Term) Val {
	e := a.e
	base := a.val(x.X, st)
	idx := a.val(x.Index, st).one()
	switch bt := x.X.Type().Underlying().(type) {
	case *types.Slice:
		if ks, ok := base.Ext.(*KnownSlice); ok && ks != nil {
			_ = ks
		}
		if base.T == nil {
			e.cur.abstracted("IndexAddr on descriptor slice")
			return Val{Typ: x.Type()}
		}
		ln := base.T[2]
		a.safety("index", a.indexLabel(x.X, x.Index), x.Pos(), reach, and(app(SBool, "<=", intLit(0), idx), app(SBool, "<", idx, ln)))
		abs := addTerms(base.T[1], idx)
		return Val{Typ: x.Type(), Ext: &LocPtr{Kind: pkElem, Base: base.T[0], BaseType: bt.Elem(), Idx: abs}}
	case *types.Pointer: // pointer to array
		at := bt.Elem().Underlying().(*types.Array)
		a.safety("index", a.indexLabel(x.X, x.Index), x.Pos(), reach, and(app(SBool, "<=", intLit(0), idx), app(SBool, "<", idx, intLit(at.Len()))))
		if lp, ok := base.Ext.(*LocPtr); ok && lp != nil {
			if c, ok := x.Index.(*ssa.Const); ok && at.Len() <= 16 {
				np := *lp
				np.Path = append(append([]pathStep{}, lp.Path...), pathStep{Field: -1, Index: int(c.Int64())})
				return Val{Typ: x.Type(), Ext: &np}
			}
		}
		if base.T != nil {
			return Val{Typ: x.Type(), Ext: &LocPtr{Kind: pkElem, Base: base.T[0], BaseType: at.Elem(), Idx: idx}}
		}
		e.cur.abstracted("IndexAddr into array with symbolic index")
		return Val{Typ: x.Type()}
	}
	e.cur.abstracted("IndexAddr on " + x.X.Type().String())
	return Val{Typ: x.Type()}
}

func addTerms(a, b Term) Term {
	if a.S == "0" {
		return b
	}
	if b.S == "0" {
		return a
	}
	return app(SInt, "+", a, b)
}

func (a *act) indexLabel(x, idx ssa.Value) string {
	return a.exprText(x) + "[" + a.exprText(idx) + "]"
}

// exprText gives a stable, source-like rendering of an SSA value for obligation names.
func (a *act) exprText(v ssa.Value) string {
	return a.exprTextD(v, 0)
}

func (a *act) exprTextD(v ssa.Value, d int) string {
	if d > 6 {
		return "…"
	}
	switch x := v.(type) {
	case *ssa.Const:
		if x.Value == nil {
			return "nil"
		}
		s := x.Value.ExactString()
		if len(s) > 24 {
			s = s[:24]
		}
		return s
	case *ssa.Parameter:
		return x.Name()
	case *ssa.FreeVar:
		return x.Name()
	case *ssa.Global:
		return x.Name()
	case *ssa.Alloc:
		if x.Comment != "" {
			return x.Comment
		}
		return "tmp"
	case *ssa.UnOp:
		if x.Op == token.MUL {
			return a.exprTextD(x.X, d+1)
		}
		return x.Op.String() + a.exprTextD(x.X, d+1)
	case *ssa.FieldAddr:
		bt := x.X.Type().Underlying().(*types.Pointer).Elem()
		fn := "?"
		if s, ok := bt.Underlying().(*types.Struct); ok {
			fn = s.Field(x.Field).Name()
		}
		return a.exprTextD(x.X, d+1) + "." + fn
	case *ssa.Field:
		fn := "?"
		if s, ok := x.X.Type().Underlying().(*types.Struct); ok {
			fn = s.Field(x.Field).Name()
		}
		return a.exprTextD(x.X, d+1) + "." + fn
	case *ssa.IndexAddr:
		return a.exprTextD(x.X, d+1) + "[" + a.exprTextD(x.Index, d+1) + "]"
	case *ssa.Index:
		return a.exprTextD(x.X, d+1) + "[" + a.exprTextD(x.Index, d+1) + "]"
	case *ssa.Lookup:
		return a.exprTextD(x.X, d+1) + "[" + a.exprTextD(x.Index, d+1) + "]"
	case *ssa.BinOp:
		return a.exprTextD(x.X, d+1) + x.Op.String() + a.exprTextD(x.Y, d+1)
	case *ssa.Call:
		s := siteName(x.Common()) + "("
		for i, arg := range x.Common().Args {
			if i > 0 {
				s += ","
			}
			s += a.exprTextD(arg, d+2)
		}
		return s + ")"
	case *ssa.Slice:
		lo, hi := "", ""
		if x.Low != nil {
			lo = a.exprTextD(x.Low, d+1)
		}
		if x.High != nil {
			hi = a.exprTextD(x.High, d+1)
		}
		return a.exprTextD(x.X, d+1) + "[" + lo + ":" + hi + "]"
	case *ssa.Convert:
		return a.exprTextD(x.X, d+1)
	case *ssa.ChangeType:
		return a.exprTextD(x.X, d+1)
	case *ssa.Extract:
		return a.exprTextD(x.Tuple, d+1) + fmt.Sprintf(".%d", x.Index)
	case *ssa.Phi:
		return "phi"
	case *ssa.TypeAssert:
		return a.exprTextD(x.X, d+1) + ".(T)"
	case *ssa.MakeInterface:
		return a.exprTextD(x.X, d+1)
	}
	return "v"
}

func (a *act) indexVal(x *ssa.Index, st *State, reach Term) Val {
	e := a.e
	base := a.val(x.X, st)
	idx := a.val(x.Index, st).one()
	switch bt := x.X.Type().Underlying().(type) {
	case *types.Array:
		a.safety("index", a.indexLabel(x.X, x.Index), x.Pos(), reach, and(app(SBool, "<=", intLit(0), idx), app(SBool, "<", idx, intLit(bt.Len()))))
		if c, ok := x.Index.(*ssa.Const); ok && base.T != nil && bt.Len() <= 16 {
			n := len(e.layout(bt.Elem()))
			k := int(c.Int64())
			return Val{Typ: x.Type(), T: base.T[k*n : (k+1)*n]}
		}
		if base.T != nil && bt.Len() <= 16 {
			// ite chain over constant positions
			n := len(e.layout(bt.Elem()))
			ts := make([]Term, n)
			for j := 0; j < n; j++ {
				t := base.T[j]
				for k := int64(1); k < bt.Len(); k++ {
					t = ite(eq(idx, intLit(k)), base.T[int(k)*n+j], t)
				}
				ts[j] = t
			}
			return Val{Typ: x.Type(), T: ts}
		}
	case *types.Basic: // string indexing yields byte (generic code); normally ssa.Lookup
		a.safety("index", a.indexLabel(x.X, x.Index), x.Pos(), reach, and(app(SBool, "<=", intLit(0), idx), app(SBool, "<", idx, app(SInt, "str.len", base.T[0]))))
		t := app(SInt, "str.at", base.T[0], idx)
		e.cur.log.assert(and(app(SBool, "<=", intLit(0), t), app(SBool, "<=", t, intLit(255))))
		return Val{Typ: x.Type(), T: []Term{t}}
	}
	e.cur.abstracted("Index on " + x.X.Type().String())
	return e.freshVal("index", x.Type(), st)
}

func (a *act) sliceOp(x *ssa.Slice, st *State, reach Term) Val {
	e := a.e
	base := a.val(x.X, st)
	var lo, hi, mx *Term
	get := func(v ssa.Value) *Term {
		if v == nil {
			return nil
		}
		t := a.val(v, st).one()
		return &t
	}
	lo, hi, mx = get(x.Low), get(x.High), get(x.Max)
	zero := intLit(0)
	label := a.exprText(x)
	switch bt := x.X.Type().Underlying().(type) {
	case *types.Slice:
		if base.T == nil {
			e.cur.abstracted("slice of descriptor slice")
			return e.freshVal("slice", x.Type(), st)
		}
		arr, off, ln, cp := base.T[0], base.T[1], base.T[2], base.T[3]
		l := zero
		if lo != nil {
			l = *lo
		}
		h := ln
		if hi != nil {
			h = *hi
		}
		m := cp
		if mx != nil {
			m = *mx
		}
		// 0 <= l <= h <= m <= cap   (h defaults to len)
		a.safety("slice", label, x.Pos(), reach, and(app(SBool, "<=", zero, l), app(SBool, "<=", l, h), app(SBool, "<=", h, m), app(SBool, "<=", m, cp)))
		return Val{Typ: x.Type(), T: []Term{arr, addTerms(off, l), subTerms(h, l), subTerms(m, l)}}
	case *types.Basic: // string
		s := base.T[0]
		ln := app(SInt, "str.len", s)
		l := zero
		if lo != nil {
			l = *lo
		}
		h := ln
		if hi != nil {
			h = *hi
		}
		a.safety("slice", label, x.Pos(), reach, and(app(SBool, "<=", zero, l), app(SBool, "<=", l, h), app(SBool, "<=", h, ln)))
		if lo == nil && hi == nil {
			return base
		}
		return Val{Typ: x.Type(), T: []Term{app(SStr, "str.sub", s, l, h)}}
	case *types.Pointer: // *array
		at := bt.Elem().Underlying().(*types.Array)
		n := intLit(at.Len())
		l := zero
		if lo != nil {
			l = *lo
		}
		h := n
		if hi != nil {
			h = *hi
		}
		a.safety("slice", label, x.Pos(), reach, and(app(SBool, "<=", zero, l), app(SBool, "<=", l, h), app(SBool, "<=", h, n)))
		// local array (varargs): snapshot of the elements
		if lp, ok := base.Ext.(*LocPtr); ok && lp != nil && lo == nil && hi == nil && at.Len() <= 16 {
			arrV := a.loadLoc(lp, bt.Elem(), st)
			if arrV.T != nil {
				k := len(e.layout(at.Elem()))
				ks := &KnownSlice{}
				for i := 0; i < int(at.Len()); i++ {
					ev := Val{Typ: at.Elem(), T: arrV.T[i*k : (i+1)*k]}
					ks.Elems = append(ks.Elems, ev)
				}
				// materialise as a fresh backing array as well
				arr := a.freshRef(st, "varargs")
				for j, l := range e.layout(at.Elem()) {
					name := elemHeapName(at.Elem(), l.Path)
					srt := arrSort(SInt, arrSort(SInt, l.Sort))
					hp := e.heapGet(st, name, srt)
					inner := sel(hp, arr)
					for i := 0; i < int(at.Len()); i++ {
						inner = store(inner, intLit(int64(i)), ks.Elems[i].T[j])
					}
					e.heapSet(st, name, store(hp, arr, inner))
				}
				return Val{Typ: x.Type(), T: []Term{arr, zero, n, n}, Ext: ks}
			}
		}
		if base.T != nil {
			sv := Val{Typ: x.Type(), T: []Term{base.T[0], l, subTerms(h, l), subTerms(n, l)}}
			if kn, ok := st.known[base.T[0].S]; ok && lo == nil && hi == nil {
				sv.Ext = &KnownSlice{Elems: append([]Val{}, kn...)}
			}
			return sv
		}
		e.cur.abstracted("slice of array pointer")
		v := e.freshVal("slice", x.Type(), st)
		e.cur.log.assert(eq(v.T[2], subTerms(h, l)))
		return v
	}
	e.cur.abstracted("Slice on " + x.X.Type().String())
	return e.freshVal("slice", x.Type(), st)
}

func subTerms(a, b Term) Term {
	if b.S == "0" {
		return a
	}
	return app(SInt, "-", a, b)
}

func (a *act) phi(x *ssa.Phi, st *State) Val {
	e := a.e
	b := x.Block()
	var t []Term
	n := len(e.layout(x.Type()))
	first := true
	for i, p := range b.Preds {
		po := a.outs[p]
		if po == nil {
			continue
		}
		var cs []Term
		for k, s := range p.Succs {
			if s == b {
				cs = append(cs, po.conds[k])
			}
		}
		c := and(po.reach, or(cs...))
		v := e.flat(a.val(x.Edges[i], st))
		if first {
			t = append([]Term{}, v...)
			first = false
			continue
		}
		for j := 0; j < n; j++ {
			t[j] = ite(c, v[j], t[j])
		}
	}
	if t == nil {
		return e.freshVal("phi", x.Type(), st)
	}
	for j := range t {
		t[j] = e.cur.log.define("phi", t[j])
	}
	return Val{Typ: x.Type(), T: t}
}
