package main

// Bounded input search for replay: strings are an abstract sort in the models, so a failed `ensures` obligation of a
// function with string parameters is replayed by running the real function on a fixed seed alphabet of strings
// (plus every string literal of the contract) and evaluating the clause at run time. The bound is stated in the
// replay file. Scalars come from the model when it has them, else from a small seed set.

import (
	"fmt"
	"go/types"
	"sort"
	"strconv"
	"strings"
)

var seedStrings = []string{"", "NaN", "nan", "Inf", "-Inf", "-1", "0", "1", "0.5", "1.5", "7", "8", "15", "16", "100", "101", "-5", "1e400",
	"1.00000001", "-1e-46", "0.99999999", "15.0", "8.5",
	"0x10", " 1", "1 ", "+1", "1_0", "true", "TRUE", "t", "maybe", "abc", "ABC", "none", "NONE", "red", "#fff", "Ⱥ", "ⱥ*", "a\x00b",
	"ȺȺȺȺx", "Ⱥx", "x", "İstanbul", "ſ"}

var seedInts = []string{"0", "1", "-1", "2", "7", "100", "101"}
var seedFloats = []string{"0", "1", "-1", "0.5", "7", "21", "1e9"}

// goSpecFuncs: run-time meaning of the uninterpreted spec functions of externals.spec
var goSpecFuncs = map[string]struct {
	expr    string // %s = argument
	imports []string
}{
	"okI":  {`func() bool { _, err := strconv.Atoi(%s); return err == nil }()`, []string{"strconv"}},
	"pi":   {`func() int { v, _ := strconv.Atoi(%s); return v }()`, []string{"strconv"}},
	"okF":  {`func() bool { _, err := strconv.ParseFloat(%s, 64); return err == nil }()`, []string{"strconv"}},
	"pf":   {`func() float64 { v, _ := strconv.ParseFloat(%s, 64); return v }()`, []string{"strconv"}},
	"nanF": {`func() bool { v, err := strconv.ParseFloat(%s, 64); return err == nil && v != v }()`, []string{"strconv"}},
	"okB":  {`func() bool { _, err := strconv.ParseBool(%s); return err == nil }()`, []string{"strconv"}},
	"pb":   {`func() bool { v, _ := strconv.ParseBool(%s); return v }()`, []string{"strconv"}},
}

// zeroBuild renders a Go expression building a value of type t with pointer-to-struct fields populated (depth levels).
func (e *Engine) zeroBuild(t types.Type, pkg *types.Package, depth int, imports map[string]bool) string {
	qual := func(p *types.Package) string {
		if p == pkg {
			return ""
		}
		imports[p.Path()] = true
		return p.Name()
	}
	switch u := t.Underlying().(type) {
	case *types.Pointer:
		if st, ok := u.Elem().Underlying().(*types.Struct); ok && depth > 0 {
			var parts []string
			for i := 0; i < st.NumFields(); i++ {
				f := st.Field(i)
				if !f.Exported() && f.Pkg() != pkg {
					continue
				}
				if _, isPtr := f.Type().Underlying().(*types.Pointer); isPtr {
					if _, isStruct := f.Type().Underlying().(*types.Pointer).Elem().Underlying().(*types.Struct); isStruct && depth > 1 {
						parts = append(parts, f.Name()+": "+e.zeroBuild(f.Type(), pkg, depth-1, imports))
					}
				}
			}
			return "&" + types.TypeString(u.Elem(), qual) + "{" + strings.Join(parts, ", ") + "}"
		}
		return "nil"
	}
	return "*new(" + types.TypeString(t, qual) + ")"
}

// planSearchReplay builds a test that searches the seed inputs for a violation of the failed ensures clause.
func (e *Engine) planSearchReplay(fr *funcResult, ob *Obligation) (*replayPlan, string) {
	fn := fr.fn
	safety := map[string]bool{"index": true, "slice": true, "nil-deref": true, "panic": true, "div-zero": true, "type-assert": true, "nil-map": true, "makeslice-len": true}
	if fn == nil || fn.Parent() != nil || !(ob.Kind == "ensures" || safety[ob.Kind]) {
		return nil, "search replay only for ensures and safety obligations of top-level functions"
	}
	var cl *Clause
	if ob.Kind == "ensures" {
		for _, c := range fr.fs.Ensures {
			if strings.HasSuffix(ob.Name, "/ensures:"+c.Label) {
				cl = c
			}
		}
		if cl == nil {
			return nil, "ensures clause not found"
		}
	}
	pkg := fn.Pkg.Pkg
	imports := map[string]bool{"testing": true, "fmt": true}
	model := parseModel(ob.Model)
	// literals of the contract become candidates for string parameters
	lits := map[string]bool{}
	var collect func(x *Expr)
	collect = func(x *Expr) {
		if x == nil {
			return
		}
		if x.Op == "lit.str" {
			lits[x.Str] = true
		}
		for _, a := range x.Args {
			collect(a)
		}
	}
	for _, c := range fr.fs.Ensures {
		collect(c.E)
	}
	for _, c := range fr.fs.Requires {
		collect(c.E)
	}
	var litList []string
	for s := range lits {
		litList = append(litList, s)
	}
	sort.Strings(litList)
	type param struct {
		name  string
		cands []string
		ctype string // element type of the candidate list when not derivable from the literal
		build string // rebuilt each iteration (pointers)
	}
	var ps []param
	hasString := false
	for i, p := range fn.Params {
		name := fmt.Sprintf("a%d", i)
		switch u := p.Type().Underlying().(type) {
		case *types.Basic:
			switch {
			case u.Info()&types.IsString != 0:
				hasString = true
				var cs []string
				seen := map[string]bool{}
				for _, s := range append(append([]string{}, litList...), seedStrings...) {
					if !seen[s] {
						seen[s] = true
						cs = append(cs, strconv.Quote(s))
					}
				}
				ps = append(ps, param{name: name, cands: cs})
			case u.Info()&types.IsInteger != 0:
				if lit, ok := e.modelValue(fr.ctx, model, "in."+p.Name(), p.Type()); ok && len(model) > 0 {
					ps = append(ps, param{name: name, cands: []string{lit}})
				} else {
					var cs []string
					for _, s := range seedInts {
						cs = append(cs, fmt.Sprintf("%s(%s)", types.TypeString(p.Type(), func(*types.Package) string { return "" }), s))
					}
					ps = append(ps, param{name: name, cands: cs})
				}
			case u.Info()&types.IsFloat != 0:
				var cs []string
				for _, s := range seedFloats {
					cs = append(cs, "float64("+s+")")
				}
				ps = append(ps, param{name: name, cands: cs})
			case u.Info()&types.IsBoolean != 0:
				ps = append(ps, param{name: name, cands: []string{"false", "true"}})
			default:
				return nil, "parameter type " + p.Type().String()
			}
		case *types.Slice:
			if b, ok := u.Elem().Underlying().(*types.Basic); ok && b.Info()&types.IsString != 0 {
				// small lists over a few seed strings, with and without the glob star
				hasString = true
				base := []string{"x", "ab", "Ⱥ", "ⱥ", "a*", ""}
				var cs []string
				q := strconv.Quote
				cs = append(cs, "{}")
				for _, s := range base {
					cs = append(cs, "{"+q(s)+"}", "{\"*\", "+q(s)+"}", "{"+q(s)+", \"*\"}", "{\"*\", "+q(s)+", \"*\"}")
				}
				ps = append(ps, param{name: name, cands: cs, ctype: "[]string"})
				break
			}
			ps = append(ps, param{name: name, build: e.zeroBuild(p.Type(), pkg, 2, imports)})
		case *types.Pointer:
			ps = append(ps, param{name: name, build: e.zeroBuild(p.Type(), pkg, 3, imports)})
		default:
			ps = append(ps, param{name: name, build: e.zeroBuild(p.Type(), pkg, 2, imports)})
		}
	}
	if !hasString {
		return nil, "no string parameter to search over"
	}
	total := 1
	for _, p := range ps {
		if len(p.cands) > 0 {
			total *= len(p.cands)
		}
	}
	if total > 200000 {
		return nil, fmt.Sprintf("search space too large (%d)", total)
	}
	nres := fn.Signature.Results().Len()
	var lhs []string
	for i := 0; i < nres; i++ {
		lhs = append(lhs, fmt.Sprintf("r%d", i))
	}
	tr := &goTranslator{e: e, fn: fn, results: lhs, params: map[string]string{}, imports: map[string]bool{}}
	for i, p := range fn.Params {
		tr.params[p.Name()] = fmt.Sprintf("a%d", i)
	}
	res := fn.Signature.Results()
	for i := 0; i < res.Len(); i++ {
		if n := res.At(i).Name(); n != "" {
			tr.params[n] = lhs[i]
		}
	}
	g, what := "true", "run-time panic ("+ob.Kind+")"
	if cl != nil {
		var ok bool
		g, ok = tr.expr(cl.E)
		if !ok {
			return nil, "clause not translatable to Go: " + tr.why
		}
		what = cl.Text
	}
	for im := range tr.imports {
		imports[im] = true
	}
	var body strings.Builder
	indent := "\t"
	depth := 0
	for _, p := range ps {
		if len(p.cands) > 0 {
			ct := p.ctype
			if ct == "" {
				ct = candType(p.cands[0])
			}
			fmt.Fprintf(&body, "%sfor _, %s := range []%s{%s} {\n", indent, p.name, ct, strings.Join(p.cands, ", "))
			indent += "\t"
			depth++
		}
	}
	fmt.Fprintf(&body, "%sfunc() {\n", indent)
	in2 := indent + "\t"
	if cl == nil {
		// safety obligation: the violation is the panic itself
		var shown0 []string
		for _, p := range ps {
			if len(p.cands) > 0 {
				shown0 = append(shown0, p.name)
			}
		}
		fmt.Fprintf(&body, "%sdefer func() { if r := recover(); r != nil && !found { found = true; fmt.Printf(\"VERIF-REPLAY: VIOLATED panic: %%v inputs: %%q\\n\", r, []any{%s}) } }()\n", in2, strings.Join(shown0, ", "))
	} else {
		fmt.Fprintf(&body, "%sdefer func() { recover() }()\n", in2)
	}
	for _, p := range ps {
		if p.build != "" {
			fmt.Fprintf(&body, "%s%s := %s\n%s_ = %s\n", in2, p.name, p.build, in2, p.name)
		}
	}
	for _, o := range tr.olds {
		fmt.Fprintf(&body, "%s%s\n", in2, o)
	}
	var argNames []string
	recv := ""
	for i := range fn.Params {
		if i == 0 && fn.Signature.Recv() != nil {
			recv = "a0"
			continue
		}
		argNames = append(argNames, fmt.Sprintf("a%d", i))
	}
	callee := fn.Name()
	if recv != "" {
		callee = recv + "." + fn.Name()
	}
	call := fmt.Sprintf("%s(%s)", callee, strings.Join(argNames, ", "))
	if nres > 0 {
		fmt.Fprintf(&body, "%s%s := %s\n", in2, strings.Join(lhs, ", "), call)
		for _, r := range lhs {
			fmt.Fprintf(&body, "%s_ = %s\n", in2, r)
		}
	} else {
		fmt.Fprintf(&body, "%s%s\n", in2, call)
	}
	var shown []string
	for _, p := range ps {
		if len(p.cands) > 0 {
			shown = append(shown, p.name)
		}
	}
	fmt.Fprintf(&body, "%stried++\n", in2)
	fmt.Fprintf(&body, "%sif !(%s) && !found { found = true; fmt.Printf(\"VERIF-REPLAY: VIOLATED %%s inputs: %%q\\n\", %q, []any{%s}) }\n", in2, g, what, strings.Join(shown, ", "))
	fmt.Fprintf(&body, "%s}()\n", indent)
	for i := 0; i < depth; i++ {
		indent = indent[:len(indent)-1]
		fmt.Fprintf(&body, "%s}\n", indent)
	}
	var sb strings.Builder
	fmt.Fprintf(&sb, "package %s\n\nimport (\n", pkg.Name())
	var ims []string
	for im := range imports {
		ims = append(ims, im)
	}
	sort.Strings(ims)
	for _, im := range ims {
		fmt.Fprintf(&sb, "\t%q\n", im)
	}
	sb.WriteString(")\n\nvar verifReplayViolated bool\nvar verifReplayWhat string\n\n")
	fmt.Fprintf(&sb, "// bounded search replay of obligation %s: %d input combinations from the seed alphabet\nfunc TestVerifReplay(t *testing.T) {\n\tfound := false\n\ttried := 0\n%s\tif found { t.Fatal(\"violated\") }\n\tfmt.Println(\"VERIF-REPLAY: HELD on\", tried, \"seed inputs\")\n}\n", ob.Name, total, body.String())
	pkgDir := strings.TrimSuffix(e.fset.Position(fn.Pos()).Filename, "/"+lastPathElem(e.fset.Position(fn.Pos()).Filename))
	return &replayPlan{pkgDir: pkgDir, pkgName: pkg.Name(), testSrc: sb.String(), overlays: map[string]string{}}, ""
}

func lastPathElem(p string) string {
	if i := strings.LastIndex(p, "/"); i >= 0 {
		return p[i+1:]
	}
	return p
}

func candType(lit string) string {
	switch {
	case strings.HasPrefix(lit, "\""):
		return "string"
	case lit == "true" || lit == "false":
		return "bool"
	case strings.HasPrefix(lit, "float64("):
		return "float64"
	}
	if i := strings.Index(lit, "("); i > 0 {
		return lit[:i]
	}
	return "int"
}
