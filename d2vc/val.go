package main

// Symbolic values: every Go value is a flat vector of SMT terms laid out by its type.

import (
	"fmt"
	"go/constant"
	"go/types"
	"math/big"
	"strings"

	"golang.org/x/tools/go/ssa"
)

type leafKind int

const (
	lkScalar leafKind = iota
	lkRef             // pointer / map / chan / func: Int reference, 0 = nil
	lkSliceArr
	lkSliceOff
	lkSliceLen
	lkSliceCap
	lkIfaceTag
	lkIfacePay
	lkOpaque
)

type Leaf struct {
	Path string
	Sort Sort
	Kind leafKind
	GoT  types.Type // Go type of the component this leaf belongs to
}

type Val struct {
	Typ types.Type
	T   []Term
	Ext any // *LocPtr, *Closure, *Boxed, *MapIter, *StrIter, *KnownSlice
}

func (v Val) one() Term {
	if len(v.T) != 1 {
		panic(fmt.Sprintf("one(): value of type %v has %d leaves", v.Typ, len(v.T)))
	}
	return v.T[0]
}

type ptrKind int

const (
	pkLocal ptrKind = iota
	pkHeap          // interior pointer into heap object Base of family BaseType
	pkElem          // pointer into slice element
	pkGlobal
)

type pathStep struct {
	Field int // struct field index, or -1
	Index int // constant array index when Field == -1
}

type LocPtr struct {
	Kind     ptrKind
	Key      any        // pkLocal: *ssa.Alloc (or other key into State.locals)
	Base     Term       // pkHeap: object ref; pkElem: backing array ref
	BaseType types.Type // pkHeap: type of the object; pkElem: element type; pkLocal/pkGlobal: type of the variable
	Idx      Term       // pkElem: absolute index
	Path     []pathStep
	G        *ssa.Global
}

func (p *LocPtr) equal(q *LocPtr) bool {
	if p.Kind != q.Kind || p.Key != q.Key || p.Base.S != q.Base.S || p.Idx.S != q.Idx.S || p.G != q.G || len(p.Path) != len(q.Path) {
		return false
	}
	for i := range p.Path {
		if p.Path[i] != q.Path[i] {
			return false
		}
	}
	return true
}

type Closure struct {
	Fn       *ssa.Function
	Bindings []Val
}

type Boxed struct{ V Val } // statically known dynamic value of an interface

// FloatFlags: a float64 value that may be NaN (only produced by strconv.ParseFloat); comparisons honour it. The flag
// is lost (value treated as an ordinary real, assumption A2) when the value is merged or stored in the heap.
type FloatFlags struct{ NaN Term }

type KnownSlice struct{ Elems []Val } // snapshot of a slice built from a local array (varargs)

type MapIter struct {
	M   Val
	Key any
}
type StrIter struct {
	S   Val
	Key any
}

// ---------------------------------------------------------------------------------------------

type layoutCache struct {
	m map[string][]Leaf
}

func typeKey(t types.Type) string {
	return types.TypeString(t, func(p *types.Package) string { return p.Path() })
}

func (e *Engine) layout(t types.Type) []Leaf {
	k := typeKey(t)
	if l, ok := e.layouts[k]; ok {
		return l
	}
	e.layouts[k] = nil // recursion guard (recursive value types are impossible in Go)
	l := e.layout1(t)
	e.layouts[k] = l
	return l
}

func (e *Engine) layout1(t types.Type) []Leaf {
	switch u := t.Underlying().(type) {
	case *types.Basic:
		info := u.Info()
		switch {
		case info&types.IsBoolean != 0:
			return []Leaf{{"", SBool, lkScalar, t}}
		case info&types.IsInteger != 0:
			return []Leaf{{"", SInt, lkScalar, t}}
		case info&types.IsFloat != 0:
			return []Leaf{{"", SReal, lkScalar, t}}
		case info&types.IsString != 0:
			return []Leaf{{"", SStr, lkScalar, t}}
		case u.Kind() == types.UnsafePointer:
			return []Leaf{{"", SInt, lkRef, t}}
		case u.Kind() == types.UntypedNil:
			return []Leaf{{"", SInt, lkRef, t}}
		}
		return []Leaf{{"", SInt, lkOpaque, t}}
	case *types.Pointer, *types.Map, *types.Chan, *types.Signature:
		return []Leaf{{"", SInt, lkRef, t}}
	case *types.Slice:
		return []Leaf{{"$arr", SInt, lkSliceArr, t}, {"$off", SInt, lkSliceOff, t}, {"$len", SInt, lkSliceLen, t}, {"$cap", SInt, lkSliceCap, t}}
	case *types.Interface:
		return []Leaf{{"$tag", SInt, lkIfaceTag, t}, {"$pay", SInt, lkIfacePay, t}}
	case *types.Struct:
		var out []Leaf
		for i := 0; i < u.NumFields(); i++ {
			f := u.Field(i)
			for _, l := range e.layout(f.Type()) {
				l.Path = "." + f.Name() + l.Path
				out = append(out, l)
			}
		}
		return out
	case *types.Array:
		if u.Len() <= 16 {
			var out []Leaf
			el := e.layout(u.Elem())
			for i := int64(0); i < u.Len(); i++ {
				for _, l := range el {
					l.Path = fmt.Sprintf("[%d]", i) + l.Path
					out = append(out, l)
				}
			}
			return out
		}
		return []Leaf{{"$bigarr", SInt, lkOpaque, t}}
	case *types.Tuple:
		var out []Leaf
		for i := 0; i < u.Len(); i++ {
			for _, l := range e.layout(u.At(i).Type()) {
				l.Path = fmt.Sprintf(".$%d", i) + l.Path
				out = append(out, l)
			}
		}
		return out
	}
	return []Leaf{{"$opaque", SInt, lkOpaque, t}}
}

// sub returns (offset, count, type) of the component reached by path from type t.
func (e *Engine) sub(t types.Type, path []pathStep) (int, int, types.Type) {
	off := 0
	cur := t
	for _, st := range path {
		switch u := cur.Underlying().(type) {
		case *types.Struct:
			for i := 0; i < st.Field; i++ {
				off += len(e.layout(u.Field(i).Type()))
			}
			cur = u.Field(st.Field).Type()
		case *types.Array:
			off += st.Index * len(e.layout(u.Elem()))
			cur = u.Elem()
		default:
			panic(fmt.Sprintf("sub: path step into %v", cur))
		}
	}
	return off, len(e.layout(cur)), cur
}

func (e *Engine) fieldVal(v Val, idx int) Val {
	off, n, ft := e.sub(v.Typ, []pathStep{{Field: idx}})
	return Val{Typ: ft, T: v.T[off : off+n]}
}

func (e *Engine) withField(v Val, path []pathStep, nv Val) Val {
	off, n, _ := e.sub(v.Typ, path)
	nt := make([]Term, len(v.T))
	copy(nt, v.T)
	src := e.flat(nv)
	if len(src) != n {
		panic(fmt.Sprintf("withField: leaf count mismatch %d vs %d (%v into %v)", len(src), n, nv.Typ, v.Typ))
	}
	copy(nt[off:off+n], src)
	return Val{Typ: v.Typ, T: nt}
}

// zero value of a type
func (e *Engine) zero(t types.Type) Val {
	ls := e.layout(t)
	ts := make([]Term, len(ls))
	for i, l := range ls {
		ts[i] = zeroOf(l.Sort)
	}
	return Val{Typ: t, T: ts}
}

func zeroOf(s Sort) Term {
	switch s {
	case SInt:
		return intLit(0)
	case SReal:
		return Term{"0.0", SReal}
	case SBool:
		return tFalse
	case SStr:
		return Term{"str.empty", SStr}
	}
	panic("zeroOf " + string(s))
}

// flat returns the leaf terms of v; values carrying only an Ext descriptor are abstracted.
func (e *Engine) flat(v Val) []Term {
	if v.T != nil {
		return v.T
	}
	ls := e.layout(v.Typ)
	ts := make([]Term, len(ls))
	for i, l := range ls {
		ts[i] = e.cur.log.fresh("abs", l.Sort)
	}
	if lp, ok := v.Ext.(*LocPtr); ok && lp != nil && len(ts) == 1 {
		// an interior pointer is never nil
		e.cur.log.assert(app(SBool, "distinct", ts[0], intLit(0)))
	}
	e.cur.abstracted("value with descriptor flattened (" + typeKey(v.Typ) + ")")
	return ts
}

// fresh symbolic value with type well-formedness assumptions
func (e *Engine) freshVal(hint string, t types.Type, st *State) Val {
	ls := e.layout(t)
	ts := make([]Term, len(ls))
	for i, l := range ls {
		ts[i] = e.cur.log.fresh(hint+l.Path, l.Sort)
	}
	v := Val{Typ: t, T: ts}
	e.assumeWF(v, st)
	return v
}

// assumeWF asserts the type invariants of v (slice header sanity, refs allocated, unsigned ranges).
func (e *Engine) assumeWF(v Val, st *State) { e.assumeWFb(v, st, nil) }

// assumeWFb: bounds[i], when given, is the allocation counter below which the reference in leaf i must lie (a
// reference read from a heap family that was last written when the counter was A is < A, so it cannot be an
// object allocated later).
func (e *Engine) assumeWFb(v Val, st *State, bounds []Term) {
	if v.T == nil {
		return
	}
	ls := e.layout(v.Typ)
	log := e.cur.log
	for i, l := range ls {
		t := v.T[i]
		if isLiteralTerm(t) {
			continue
		}
		var bound Term
		if st != nil {
			bound = st.alloc
		}
		if bounds != nil && bounds[i].S != "" {
			bound = bounds[i]
		}
		switch l.Kind {
		case lkRef:
			if bound.S != "" {
				log.assert(and(app(SBool, "<=", intLit(0), t), app(SBool, "<", t, bound)))
			} else {
				log.assert(app(SBool, "<=", intLit(0), t))
			}
		case lkSliceArr:
			if bound.S != "" {
				log.assert(and(app(SBool, "<=", intLit(0), t), app(SBool, "<", t, bound)))
			}
		case lkSliceOff:
			log.assert(app(SBool, "<=", intLit(0), t))
		case lkSliceLen:
			log.assert(and(app(SBool, "<=", intLit(0), t), app(SBool, "<=", t, v.T[i+1])))
			// nil slice: arr == 0 => len == 0
			log.assert(implies(eq(v.T[i-2], intLit(0)), eq(t, intLit(0))))
		case lkIfaceTag:
			log.assert(app(SBool, "<=", intLit(0), t))
			log.assert(implies(eq(t, intLit(0)), eq(v.T[i+1], intLit(0))))
			// sealed interface (it has an unexported method): only types of its own package can implement it
			if impls := e.sealedImplementors(l.GoT); impls != nil {
				cs := []Term{eq(t, intLit(0))}
				for _, it := range impls {
					cs = append(cs, eq(t, intLit(int64(e.typeTag(it)))))
				}
				log.assert(or(cs...))
			}
		case lkScalar:
			if b, ok := l.GoT.Underlying().(*types.Basic); ok {
				switch b.Kind() {
				case types.Uint8:
					log.assert(and(app(SBool, "<=", intLit(0), t), app(SBool, "<=", t, intLit(255))))
				case types.Uint16:
					log.assert(and(app(SBool, "<=", intLit(0), t), app(SBool, "<=", t, intLit(65535))))
				case types.Uint, types.Uint32, types.Uint64, types.Uintptr:
					log.assert(app(SBool, "<=", intLit(0), t))
				case types.Int32:
					log.assert(and(app(SBool, "<=", intLit(-2147483648), t), app(SBool, "<=", t, intLit(2147483647))))
				}
			}
		}
	}
}

func isLiteralTerm(t Term) bool {
	if t.S == "" {
		return true
	}
	c := t.S[0]
	return (c >= '0' && c <= '9') || strings.HasPrefix(t.S, "(- ") || t.S == "true" || t.S == "false" || t.S == "str.empty" || strings.HasPrefix(t.S, "lit!")
}

// ---------------------------------------------------------------------------------------------
// constants

func (e *Engine) constVal(c *ssa.Const) Val {
	t := c.Type()
	if c.Value == nil {
		return e.zero(t)
	}
	return e.constantVal(c.Value, t)
}

func (e *Engine) constantVal(cv constant.Value, t types.Type) Val {
	ls := e.layout(t)
	if len(ls) != 1 {
		// e.g. interface-typed constant: not produced by ssa
		return e.zero(t)
	}
	switch ls[0].Sort {
	case SBool:
		if constant.BoolVal(cv) {
			return Val{Typ: t, T: []Term{tTrue}}
		}
		return Val{Typ: t, T: []Term{tFalse}}
	case SInt:
		if cv.Kind() == constant.Float {
			cv = constant.ToInt(cv)
		}
		if i, ok := constant.Int64Val(cv); ok {
			return Val{Typ: t, T: []Term{intLit(i)}}
		}
		bi, _ := new(big.Int).SetString(cv.ExactString(), 10)
		if bi != nil {
			if bi.Sign() < 0 {
				return Val{Typ: t, T: []Term{{"(- " + new(big.Int).Neg(bi).String() + ")", SInt}}}
			}
			return Val{Typ: t, T: []Term{{bi.String(), SInt}}}
		}
	case SReal:
		return Val{Typ: t, T: []Term{realLit(cv)}}
	case SStr:
		return Val{Typ: t, T: []Term{e.strLit(constant.StringVal(cv))}}
	}
	return e.zero(t)
}

func realLit(cv constant.Value) Term {
	f := constant.ToFloat(cv)
	// exact rational
	num, den := constant.Num(f), constant.Denom(f)
	ns, ds := num.ExactString(), den.ExactString()
	neg := strings.HasPrefix(ns, "-")
	ns = strings.TrimPrefix(ns, "-")
	var s string
	if ds == "1" {
		s = ns + ".0"
	} else {
		s = "(/ " + ns + ".0 " + ds + ".0)"
	}
	if neg {
		s = "(- " + s + ")"
	}
	return Term{s, SReal}
}

// string literals are distinct constants lit!k with known length; facts between literals are
// computed by running the real library function at generation time.
func (e *Engine) strLit(s string) Term {
	if s == "" {
		return Term{"str.empty", SStr}
	}
	if t, ok := e.cur.lits[s]; ok {
		return t
	}
	name := fmt.Sprintf("lit!%d", len(e.cur.litOrder))
	t := Term{name, SStr}
	e.cur.lits[s] = t
	e.cur.litOrder = append(e.cur.litOrder, s)
	return t
}
