#!/bin/bash
# Builds /verif/bin/d2vc from the module cache only (offline) and checks that the solvers answer.
set -e
cd "$(dirname "$0")"
export GOFLAGS=-mod=mod GOPROXY=off GOSUMDB=off GOTOOLCHAIN=local
mkdir -p bin work evidence replay
(cd d2vc && go1.26.8 build -o ../bin/d2vc .)
(cd tools/validate_externals && go1.26.8 build -o ../../bin/validate_externals .)
printf '(set-logic ALL)(declare-const x Int)(assert (> x 1))(check-sat)\n' > work/.probe.smt2
for s in z3 z3-new cvc5; do
  out=$($s work/.probe.smt2 2>&1 | grep -v "^work" | tail -1)
  [ "$out" = "sat" ] || { echo "solver $s does not answer: $out"; exit 1; }
done
echo "setup ok"
