#!/usr/bin/env python3
# seed_in.py <prop> <agent-change-dir> <name> [test packages ...]
# Takes a change produced by a seeding sub-agent (patch.diff, seed_demo_test.go, meta.json with demo_package), confirms it
# in a scratch worktree with tools/confirm_seed.sh (patch applies, builds, listed tests pass, demo fails with / passes
# without the change), runs the property's quick check against /repo with the patch applied (and undoes it), and writes
# /verif/seeded/<name>/meta.json.
import json, os, subprocess, sys
root = os.path.dirname(os.path.dirname(os.path.abspath(__file__)))
prop, src, name = sys.argv[1:4]
pkgs = sys.argv[4:]
am = json.load(open(os.path.join(src, 'meta.json')))
demopkg = am.get('demo_package', '').strip('./') or '.'
if not pkgs:
    pkgs = ['./' + demopkg + '/']
r = subprocess.run([os.path.join(root, 'tools/confirm_seed.sh'), prop, src, name, demopkg] + pkgs, cwd=root,
                   capture_output=True, text=True)
out = os.path.join(root, 'seeded', name)
log = open(os.path.join(out, 'confirm.log')).read().splitlines()
confirmed = [l for l in log if ':' in l and not l.startswith(('ok', 'FAIL', '---', '===', ' ', '\t', '?', 'panic', 'exit'))][:12]
last = log[-1] if log else ''
viol = []
try:
    for l in open(os.path.join(out, 'check_output.txt')):
        if l.startswith('VIOLATION') or l.startswith('  obligation'):
            viol.append(l.strip())
except FileNotFoundError:
    pass
meta = {
    'property': prop, 'name': name, 'summary': am.get('summary', ''), 'needs': am.get('needs', ''),
    'demo_package': demopkg, 'agent_ran': am.get('tests_run', []),
    'confirmed_by_me': [l for l in log if l.startswith(('patch applies', 'build with', 'existing tests', 'demo with', 'check ', 'confirmed='))],
    'detected_by_check': 'detected=yes' in last, 'violations_reported': viol[:12],
}
json.dump(meta, open(os.path.join(out, 'meta.json'), 'w'), indent=1)
print(name, last)
