#!/usr/bin/env python3
# Regenerates /verif/MANIFEST.json from tools/claims.json (claimed checks) and tools/not_applicable.json.
import json,os,re,subprocess
root=os.path.dirname(os.path.dirname(os.path.abspath(__file__)))
claims=json.load(open(os.path.join(root,'tools','claims.json')))
na=json.load(open(os.path.join(root,'tools','not_applicable.json')))
props=[json.loads(l)['id'] for l in open(os.path.join(root,'properties.jsonl'))]
hooks=subprocess.run(['git','-C','/repo','log','--format=%h %s'],capture_output=True,text=True).stdout.splitlines()
# hook commits: 'verif:' commits, plus the driver's end-of-round commits of then-uncommitted contract files
# ('round N: uncommitted hook changes (driver)') when they are not empty; all of them touch only zz_verif_contracts.go
def nonempty(h):
    files=subprocess.run(['git','-C','/repo','show','--format=','--name-only',h],capture_output=True,text=True).stdout.split()
    return len(files)>0 and all(f.endswith('zz_verif_contracts.go') for f in files)
hook_commits=[l.split()[0] for l in hooks if l.split(' ',1)[1].startswith('verif:')
              or (re.match(r'round \d+: uncommitted hook changes',l.split(' ',1)[1]) and nonempty(l.split()[0]))]
checks=[]
for pid in props:
    if pid not in claims: continue
    c=claims[pid]
    checks.append({
      "property_id":pid,
      "quick_cmd":"./check %s quick"%pid,
      "thorough_cmd":"./check %s thorough"%pid,
      "evidence_file":"/verif/evidence/%s.json"%pid,
      "replay_cmd_template":"./check %s --replay {path}"%pid,
      "engine":"d2vc",
      "level_claimed":{"category":c.get("category","proof"),"text":c["text"],"design_ref":c.get("design_ref","DESIGN.md §7 "+pid)},
      "level_note":c["note"],
      "technique":c.get("technique","contract-based deductive verification: WP/VC generation over go/ssa of the real functions, //@ contracts, obligations discharged by z3/cvc5")
    })
nalist=[]
for pid in props:
    if pid in claims: continue
    if pid not in na: raise SystemExit("property %s neither claimed nor not_applicable"%pid)
    nalist.append({"property_id":pid,"reason":na[pid]})
m={
 "version":1,
 "setup_cmd":"./setup.sh",
 "hooks":{
  "guard":"verif",
  "enable":"contracts are comment-only files /repo/<pkg>/zz_verif_contracts.go behind //go:build verif; d2vc loads /repo with -tags=verif (no executable hooks)",
  "baseline_off_cmd":"for m in $(cat /w/out/gomods.txt); do MF=$(cd /repo/$m && . /w/out/goenv.sh && gomodflag); (cd /repo/$m && go test $MF -json -vet=off -count=1 -timeout 25m ./...); done",
  "source_commits":hook_commits,
  "add_only":True
 },
 "engines":[{"name":"d2vc","path":"/verif/d2vc","serves_properties":[c["property_id"] for c in checks],
   "kind_free_text":"self-built deductive verifier for Go: symbolic execution / weakest-precondition VC generation over go/ssa (NaiveForm) of the real functions in /repo, Gobra-style //@ contracts in build-tag-guarded comment files, loops cut at invariants, callers checked against callee contracts, obligations raced on z3 4.8.12 / z3 5.1.0 / cvc5 1.0, ledger of claimed obligations, replay of solver models on the real code via go test -overlay"}],
 "checks":checks,
 "notes":"See DESIGN.md. Known findings and fixed defects: known_findings.json. Must-fail corpus: selftest/. Seeded independent changes: seeded/.",
 "not_applicable":nalist
}
json.dump(m,open(os.path.join(root,'MANIFEST.json'),'w'),indent=1,ensure_ascii=False)
print("MANIFEST: %d checks, %d not_applicable"%(len(checks),len(nalist)))
