#!/usr/bin/env python3
# unsat-core helper for d2vc query files: python3 tools/core.py file.smt2 [solver]
import subprocess,re,sys
f=sys.argv[1]; solver=sys.argv[2] if len(sys.argv)>2 else 'z3'
lines=open(f).read().split('\n')
out=[];k=0
for l in lines:
    if l.startswith('(assert ') and not l.startswith('(assert (forall') :
        k+=1
        out.append('(assert (! %s :named a%d))'%(l[8:-1],k))
    elif l.startswith('(check-sat'):
        out.append(l); out.append('(get-unsat-core)')
    elif l.startswith('(get-value'): pass
    else: out.append(l)
open('/tmp/core.smt2','w').write('(set-option :produce-unsat-cores true)\n'+'\n'.join(out))
r=subprocess.run([solver,'-T:60','/tmp/core.smt2'],capture_output=True,text=True).stdout
print(r[:200])
core=set(re.findall(r'a\d+',r))
for l in out:
    m=re.search(r':named (a\d+)\)\)$',l)
    if m and m.group(1) in core: print(l[:400])
