#!/usr/bin/env python3
# Prints the markdown table of DESIGN.md section 12 from /verif/seeded/*/meta.json.
import json, glob, os, re
root = os.path.dirname(os.path.dirname(os.path.abspath(__file__)))
rows = []
for d in sorted(glob.glob(os.path.join(root, 'seeded', '*'))):
    mp = os.path.join(d, 'meta.json')
    if not os.path.exists(mp):
        continue
    m = json.load(open(mp))
    obs = []
    for v in m.get('violations_reported', []):
        mm = re.search(r'obligation: (\S+)', v)
        if mm:
            o = re.sub(r'#\d+$', '', mm.group(1))
            if o not in obs:
                obs.append(o)
    summ = ' '.join(m.get('summary', '').split())
    summ = summ[:150] + ('…' if len(summ) > 150 else '')
    det = 'yes' if m.get('detected_by_check') else 'no'
    why = m.get('not_detected_because', '')
    rows.append((m.get('property', '?'), os.path.basename(d), summ, det, '; '.join(obs[:3]) + (' …' if len(obs) > 3 else ''), why))
print('| seed | what it changes | caught | by obligation(s) / why not |')
print('|---|---|---|---|')
for p, n, s, det, obs, why in rows:
    print('| %s | %s | %s | %s |' % (n, s.replace('|', '/'), det, (obs if det == 'yes' else why).replace('|', '/')))
print()
print('%d seeds, %d caught' % (len(rows), sum(1 for r in rows if r[3] == 'yes')))
