#!/usr/bin/env python3
# Acceptance run, the way /verif is exercised: for every check in MANIFEST.json remove its evidence file, run the
# quick (or thorough) command, and require exit 0, no VIOLATION line, and a rewritten evidence file that validates
# against EVIDENCE.schema.json with coverage.discharged == coverage.obligations.
#   python3-vt tools/run_all.py [quick|thorough] [C16 C28 ...]
import json, os, subprocess, sys, time
root = os.path.dirname(os.path.dirname(os.path.abspath(__file__)))
tier = 'quick'
only = []
for a in sys.argv[1:]:
    if a in ('quick', 'thorough'):
        tier = a
    else:
        only.append(a)
m = json.load(open(os.path.join(root, 'MANIFEST.json')))
try:
    import jsonschema
    schema = json.load(open('/root/.vp/EVIDENCE.schema.json'))
except Exception as e:  # pragma: no cover
    jsonschema = None
    print('note: schema validation skipped:', e)
env = dict(os.environ, VERIF_TIER=tier, VERIF_SEED=os.environ.get('VERIF_SEED', '1'))
env.pop('VERIF_EVIDENCE_DIR', None)
bad = 0
for c in m['checks']:
    pid = c['property_id']
    if only and pid not in only:
        continue
    ev = c['evidence_file']
    if os.path.exists(ev):
        os.remove(ev)
    t0 = time.time()
    p = subprocess.run(c[tier + '_cmd'], shell=True, cwd=root, env=env, capture_output=True, text=True)
    dt = time.time() - t0
    problems = []
    if p.returncode != 0:
        problems.append('exit %d' % p.returncode)
    if any(l.startswith('VIOLATION') for l in p.stdout.splitlines()):
        problems.append('VIOLATION line')
    if not os.path.exists(ev):
        problems.append('evidence not rewritten')
    else:
        d = json.load(open(ev))
        if jsonschema:
            try:
                jsonschema.validate(d, schema)
            except jsonschema.ValidationError as e:
                problems.append('schema: ' + e.message[:200])
        cov = d.get('coverage', {})
        if d.get('property_id') != pid or d.get('tier') != tier:
            problems.append('evidence is for %s/%s' % (d.get('property_id'), d.get('tier')))
        if d.get('level') != c['level_claimed']['category']:
            problems.append('level %s != claimed %s' % (d.get('level'), c['level_claimed']['category']))
        if cov.get('obligations') != cov.get('discharged') or not cov.get('obligations'):
            problems.append('discharged %s != obligations %s' % (cov.get('discharged'), cov.get('obligations')))
        if d.get('violations'):
            problems.append('violations=%s' % d.get('violations'))
    last = (p.stdout.strip().splitlines() or [''])[-1]
    print('%-4s %-8s %6.1fs  %s  %s' % (pid, 'ok' if not problems else 'BROKEN', dt, last, '; '.join(problems)), flush=True)
    if problems:
        bad += 1
        sys.stdout.write(p.stdout[-3000:] + p.stderr[-2000:])
print('run_all %s: %d broken' % (tier, bad))
sys.exit(1 if bad else 0)
