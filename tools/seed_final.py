#!/usr/bin/env python3
# Run of record for the seeded changes: for every /verif/seeded/<name>/patch.diff
#   git -C /repo apply <patch>;  ./check <property> quick  (evidence diverted to work/seed_evidence);  git -C /repo checkout -- .
# and record the outcome in the seed's meta.json (detected_by_check, violations_reported, final_check).
# Usage: tools/seed_final.py [name-substring ...]
import json, os, subprocess, sys, glob, re

root = os.path.dirname(os.path.dirname(os.path.abspath(__file__)))
os.chdir(root)
sel = sys.argv[1:]
head = subprocess.run(['git', '-C', '/repo', 'rev-parse', '--short', 'HEAD'], capture_output=True, text=True).stdout.strip()
dirty = subprocess.run(['git', '-C', '/repo', 'status', '--porcelain', '--untracked-files=no'], capture_output=True, text=True).stdout.strip()
if dirty:
    print('refusing: /repo has uncommitted changes:\n' + dirty)
    sys.exit(2)
env = dict(os.environ, VERIF_EVIDENCE_DIR=os.path.join(root, 'work', 'seed_evidence'))
for d in sorted(glob.glob('seeded/*')):
    name = os.path.basename(d)
    if sel and not any(s in name for s in sel):
        continue
    mp, pp = os.path.join(d, 'meta.json'), os.path.join(d, 'patch.diff')
    if not (os.path.exists(mp) and os.path.exists(pp)):
        continue
    m = json.load(open(mp))
    prop = m.get('property') or name.split('-')[0]
    ap = os.path.abspath(pp)
    if subprocess.run(['git', '-C', '/repo', 'apply', '--check', ap], capture_output=True).returncode != 0:
        m['final_check'] = {'repo_commit': head, 'applies': False,
                            'note': 'the patch no longer applies to /repo at this commit (the code it changes was repaired by a fix: commit); last valid run kept'}
        json.dump(m, open(mp, 'w'), indent=1, ensure_ascii=False)
        print('%-58s patch no longer applies' % name)
        continue
    subprocess.run(['git', '-C', '/repo', 'apply', ap], check=True)
    try:
        r = subprocess.run(['./check', prop, 'quick'], capture_output=True, text=True, env=env)
    finally:
        subprocess.run(['git', '-C', '/repo', 'checkout', '--', '.'], check=True)
    out = r.stdout + r.stderr
    open(os.path.join(d, 'check_output.txt'), 'w').write(out)
    viol = [l for l in out.splitlines() if l.startswith('VIOLATION') or l.startswith('  obligation:')]
    m['detected_by_check'] = r.returncode == 1 and any(l.startswith('VIOLATION') for l in viol)
    m['violations_reported'] = viol[:16]
    m['final_check'] = {'repo_commit': head, 'applies': True, 'exit': r.returncode,
                        'command': 'git -C /repo apply seeded/%s/patch.diff; ./check %s quick; git -C /repo checkout -- .' % (name, prop)}
    if m['detected_by_check']:
        m.pop('not_detected_because', None)
    json.dump(m, open(mp, 'w'), indent=1, ensure_ascii=False)
    print('%-58s exit %d  detected=%s' % (name, r.returncode, 'yes' if m['detected_by_check'] else 'no'))
