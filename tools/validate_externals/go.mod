module validate_externals

go 1.26.8
