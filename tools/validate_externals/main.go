// validate_externals: bounded differential validation of the library contracts that /verif/specs/externals.spec
// ASSUMES (A3). It runs the real library functions and compares them with the spec functions. Bounded, not proof:
// the result is written as JSON (bounded_checks in the evidence), never counted as discharged obligations.
package main

import (
	"bytes"
	"compress/flate"
	"encoding/base64"
	"encoding/json"
	"fmt"
	"io"
	"math"
	"math/rand"
	"os"
	"strconv"
	"strings"
	"unicode"
	"unicode/utf16"
	"unicode/utf8"
)

type result struct {
	Name   string `json:"name"`
	Bound  string `json:"bound"`
	Cases  int    `json:"cases"`
	Failed int    `json:"failed"`
	First  string `json:"first_failure,omitempty"`
}

func validRune(r rune) bool { return 0 <= r && r <= 0x10FFFF && !(0xD800 <= r && r <= 0xDFFF) }
func size8(r rune) int {
	switch {
	case r < 0x80:
		return 1
	case r < 0x800:
		return 2
	case r < 0x10000:
		return 3
	}
	return 4
}

func runes() []result {
	a := result{Name: "utf8.RuneLen == size8 / -1", Bound: "all runes -1..0x110000 (exhaustive)"}
	b := result{Name: "utf16.EncodeRune surrogates <==> 0x10000..0x10FFFF", Bound: "all runes -1..0x110000 (exhaustive)"}
	for r := rune(-1); r <= 0x110000; r++ {
		a.Cases++
		want := -1
		if validRune(r) {
			want = size8(r)
		}
		if utf8.RuneLen(r) != want {
			a.Failed++
			if a.First == "" {
				a.First = fmt.Sprintf("r=%#x", r)
			}
		}
		b.Cases++
		r1, r2 := utf16.EncodeRune(r)
		pair := r1 != 0xFFFD && r2 != 0xFFFD
		both := r1 == 0xFFFD && r2 == 0xFFFD
		in := 0x10000 <= r && r <= 0x10FFFF
		if (in && !pair) || (!in && !both) {
			b.Failed++
			if b.First == "" {
				b.First = fmt.Sprintf("r=%#x", r)
			}
		}
	}
	return []result{a, b}
}

func encode(raw string, dict []byte, enc *base64.Encoding) (string, error) {
	b := &bytes.Buffer{}
	zw, err := flate.NewWriterDict(b, flate.BestCompression, dict)
	if err != nil {
		return "", err
	}
	if _, err := io.Copy(zw, strings.NewReader(raw)); err != nil {
		return "", err
	}
	if err := zw.Close(); err != nil {
		return "", err
	}
	return enc.EncodeToString(b.Bytes()), nil
}

func decode(s string, dict []byte, enc *base64.Encoding) (string, error) {
	d, err := enc.DecodeString(s)
	if err != nil {
		return "", err
	}
	zr := flate.NewReaderDict(bytes.NewReader(d), dict)
	var b bytes.Buffer
	if _, err := io.Copy(&b, zr); err != nil {
		return "", err
	}
	if err := zr.Close(); err != nil {
		return "", err
	}
	return b.String(), nil
}

var thorough bool

func flateB64(seed int64, n int) []result {
	maxLen := 1
	if thorough {
		maxLen = 2
	}
	inv := result{Name: "inflate(deflate(x)) == x and unb64(b64(x)) == x, no errors, Close after Copy (the axioms of C43)", Bound: fmt.Sprintf("all byte strings of length <= %d + %d seeded random/structured strings up to 64 KiB, seed %d", maxLen, n, seed)}
	safe := result{Name: "b64(URLEncoding, x) uses only A-Za-z0-9-_=", Bound: inv.Bound}
	check := func(x string) {
		inv.Cases++
		safe.Cases++
		e, err := encode(x, nil, base64.URLEncoding)
		if err != nil {
			inv.Failed++
			if inv.First == "" {
				inv.First = fmt.Sprintf("encode error %v on %q", err, trunc(x))
			}
			return
		}
		for _, c := range e {
			if !(c >= 'A' && c <= 'Z' || c >= 'a' && c <= 'z' || c >= '0' && c <= '9' || c == '-' || c == '_' || c == '=') {
				safe.Failed++
				if safe.First == "" {
					safe.First = fmt.Sprintf("char %q", c)
				}
				break
			}
		}
		y, err := decode(e, nil, base64.URLEncoding)
		if err != nil || y != x {
			inv.Failed++
			if inv.First == "" {
				inv.First = fmt.Sprintf("decode(%q) = %q, %v", trunc(e), trunc(y), err)
			}
		}
	}
	check("")
	for a := 0; a < 256; a++ {
		check(string([]byte{byte(a)}))
		if !thorough {
			continue
		}
		for b := 0; b < 256; b++ {
			check(string([]byte{byte(a), byte(b)}))
		}
	}
	rng := rand.New(rand.NewSource(seed))
	for i := 0; i < n; i++ {
		l := rng.Intn(1 << uint(rng.Intn(17)))
		buf := make([]byte, l)
		switch i % 3 {
		case 0: // incompressible
			rng.Read(buf)
		case 1: // highly compressible
			c := byte(rng.Intn(256))
			for j := range buf {
				buf[j] = c
			}
		default: // text-like with invalid UTF-8 sprinkled in
			for j := range buf {
				buf[j] = "abc ->{}:;\n\xff\xc0"[rng.Intn(13)]
			}
		}
		check(string(buf))
	}
	return []result{inv, safe}
}

func trunc(s string) string {
	if len(s) > 40 {
		return s[:40] + "..."
	}
	return s
}

func strconvChecks() []result {
	r := result{Name: "strconv.Atoi/ParseFloat/ParseBool: value is meaningful exactly when err == nil; NaN parses without error", Bound: "fixed seed strings (40) incl. NaN, Inf, hex, underscores, spaces"}
	seeds := []string{"", "NaN", "nan", "Inf", "-Inf", "-1", "0", "1", "0.5", "1.5", "7", "8", "15", "16", "100", "101", "-5", "1e400", "0x10", " 1", "1 ", "+1", "1_0", "true", "TRUE", "t", "maybe", "abc", "9223372036854775808", "-0", "1e-400", ".5", "5.", "0b1", "0o7", "1e2", "T", "F", "f", "false"}
	for _, s := range seeds {
		r.Cases++
		v, err := strconv.Atoi(s)
		if err != nil && v != 0 && !strings.Contains(err.Error(), "range") {
			r.Failed++
			r.First = "Atoi " + s
		}
		f, err := strconv.ParseFloat(s, 64)
		if strings.EqualFold(s, "nan") && !(err == nil && math.IsNaN(f)) {
			r.Failed++
			r.First = "ParseFloat NaN"
		}
	}
	return []result{r}
}

// unicodeChecks: the assumed contracts of unicode.IsSpace (C01), IsDigit and IsLetter (C32), exhaustively over the
// range they speak about.
func unicodeChecks() []result {
	r := result{Name: "unicode.IsSpace on the Latin-1 spaces; unicode.IsDigit / IsLetter on 0..127 (and negative runes)", Bound: "exhaustive over the 8 listed spaces and the runes -2..127"}
	for _, c := range []rune{'\t', '\n', '\v', '\f', '\r', ' ', 0x85, 0xA0} {
		r.Cases++
		if !unicode.IsSpace(c) {
			r.Failed++
			r.First = fmt.Sprintf("IsSpace(%#x) is false", c)
		}
	}
	for c := rune(-2); c < 128; c++ {
		r.Cases++
		if unicode.IsDigit(c) != ('0' <= c && c <= '9') {
			r.Failed++
			r.First = fmt.Sprintf("IsDigit(%#x)", c)
		}
		if unicode.IsLetter(c) != (('A' <= c && c <= 'Z') || ('a' <= c && c <= 'z')) {
			r.Failed++
			r.First = fmt.Sprintf("IsLetter(%#x)", c)
		}
	}
	return []result{r}
}

// trigChecks: the assumed ranges of math.Atan2 / math.Cos / math.Sin used by shapeOval.GetDimensionsToFit (C21), on a
// grid of first-quadrant points (including both axes and extreme ratios) and of angles in [0, float32(pi/2)].
func trigChecks() []result {
	r := result{Name: "math.Atan2 in [0, 1.5707964] on the closed first quadrant; math.Cos in [-1e-7, 1] and math.Sin in [0, 1] on [0, float32(pi/2)]", Bound: "grid: 61x61 points (0 and 10^-10..10^10 per axis), 200001 angles plus the float32-rounded angle of every point"}
	const top = 1.5707964
	coords := []float64{0}
	for e := -10.0; e <= 10.0; e += 1.0 / 3 {
		coords = append(coords, math.Pow(10, e))
	}
	angle := func(th float64, what string) {
		r.Cases++
		c, s := math.Cos(th), math.Sin(th)
		if !(-0.0000001 <= c && c <= 1) || !(0 <= s && s <= 1) {
			r.Failed++
			r.First = fmt.Sprintf("%s: cos(%v)=%v sin=%v", what, th, c, s)
		}
	}
	for _, y := range coords {
		for _, x := range coords {
			th := math.Atan2(y, x)
			r.Cases++
			if !(0 <= th && th <= top) {
				r.Failed++
				r.First = fmt.Sprintf("Atan2(%v,%v)=%v", y, x, th)
			}
			th32 := float64(float32(th))
			if !(0 <= th32 && th32 <= top) {
				r.Failed++
				r.First = fmt.Sprintf("float32(Atan2(%v,%v))=%v", y, x, th32)
			}
			angle(th32, "rounded angle")
		}
	}
	last := float64(float32(math.Pi / 2))
	for i := 0; i <= 200000; i++ {
		angle(last*float64(i)/200000, "grid angle")
	}
	return []result{r}
}

func main() {
	seed := int64(1)
	if s := os.Getenv("VERIF_SEED"); s != "" {
		if v, err := strconv.ParseInt(s, 10, 64); err == nil {
			seed = v
		}
	}
	n := 300
	if len(os.Args) > 1 && os.Args[1] == "thorough" {
		n = 20000
		thorough = true
	}
	var all []result
	which := "all"
	if len(os.Args) > 2 {
		which = os.Args[2]
	}
	if which == "all" || which == "C02" {
		all = append(all, runes()...)
	}
	if which == "all" || which == "C43" {
		all = append(all, flateB64(seed, n)...)
	}
	if which == "all" || which == "C16" {
		all = append(all, strconvChecks()...)
	}
	if which == "all" || which == "C01" || which == "C32" {
		all = append(all, unicodeChecks()...)
	}
	if which == "all" || which == "C21" {
		all = append(all, trigChecks()...)
	}
	bad := 0
	for _, r := range all {
		bad += r.Failed
	}
	json.NewEncoder(os.Stdout).Encode(map[string]any{"labelled": "bounded (not proof)", "checks": all, "failed": bad})
	if bad > 0 {
		os.Exit(1)
	}
}
