#!/bin/bash
# confirm_seed.sh <prop> <src-dir-with-patch.diff+demo+meta.json> <name> <demo-package-dir> <test packages...>
# 1. scratch worktree of /repo HEAD: patch applies, builds, listed tests pass, demo FAILS with the patch and PASSES without it
# 2. the property's check is run against /repo with the patch applied (and /repo is restored)
# 3. everything is stored under /verif/seeded/<name>/
set -u
prop="$1"; src="$2"; name="$3"; demopkg="$4"; shift 4
export GOFLAGS=-mod=mod GOPROXY=off
wt=/tmp/confirm_$name
out=/verif/seeded/$name
mkdir -p "$out"
log="$out/confirm.log"; : > "$log"
git -C /repo worktree remove --force "$wt" >/dev/null 2>&1; rm -rf "$wt"
git -C /repo worktree add -q --detach "$wt" HEAD || exit 2
res() { echo "$1" | tee -a "$log"; }
demo=$(ls "$src"/*_test.go 2>/dev/null | head -1)
cd "$wt" || exit 2
ok=1
if git apply --check "$src/patch.diff" 2>>"$log"; then git apply "$src/patch.diff"; res "patch applies: yes"; else res "patch applies: NO"; ok=0; fi
if [ $ok = 1 ]; then
  if go build ./... >>"$log" 2>&1; then res "build with change: ok"; else res "build with change: FAIL"; ok=0; fi
fi
if [ $ok = 1 ] && [ $# -gt 0 ]; then
  if go test -count=1 "$@" >>"$log" 2>&1; then res "existing tests with change ($*): pass"; else res "existing tests with change ($*): FAIL"; ok=0; fi
fi
if [ $ok = 1 ]; then
  cp "$demo" "$wt/$demopkg/"
  if go test -count=1 -run 'Seed' "./$demopkg/" >>"$log" 2>&1; then res "demo with change: PASSES (expected fail)"; ok=0; else res "demo with change: fails (as expected)"; fi
  git apply -R "$src/patch.diff"
  if go test -count=1 -run 'Seed' "./$demopkg/" >>"$log" 2>&1; then res "demo without change: passes (as expected)"; else res "demo without change: FAILS (expected pass)"; ok=0; fi
fi
cd /verif
cp "$src/patch.diff" "$out/patch.diff" 2>/dev/null; cp "$demo" "$out/" 2>/dev/null; cp "$src/meta.json" "$out/meta.agent.json" 2>/dev/null
if [ "${SEED_CHECK_IN_WORKTREE:-0}" = 1 ]; then
  # triage mode: the verifier reads the scratch worktree (at /repo's HEAD, with the patch applied) through -repo, so
  # /repo itself stays untouched and can be edited meanwhile. The run of record is the one against /repo (default mode).
  (cd "$wt" && git apply "$src/patch.diff") || { res "patch does not apply to the worktree"; exit 3; }
  export PATH=/opt/veriftools/go1.26.8/bin:$PATH GOFLAGS=-mod=mod GOPROXY=off GOSUMDB=off GOTOOLCHAIN=local
  VERIF_EVIDENCE_DIR=/verif/work/seed_evidence bin/d2vc check -prop "$prop" -tier quick -repo "$wt" > "$out/check_output.txt" 2>&1; rc=$?
  git -C /repo worktree remove --force "$wt" >/dev/null 2>&1; rm -rf "$wt"
  res "check $prop quick with change (verifier run with -repo <scratch worktree at $(git -C /repo rev-parse --short HEAD) + patch>): exit $rc, $(grep -c '^VIOLATION' "$out/check_output.txt") VIOLATION lines"
  grep '^VIOLATION\|^  obligation' "$out/check_output.txt" | head -12 >> "$log"
  res "confirmed=$ok detected=$([ $rc = 1 ] && echo yes || echo no)"
  exit 0
fi
git -C /repo worktree remove --force "$wt" >/dev/null 2>&1; rm -rf "$wt"
# run the check against the real repo with the patch applied
git -C /repo apply "$src/patch.diff" || { res "patch does not apply to /repo"; exit 3; }
# (evidence of this run goes to work/, never to /verif/evidence: that directory only holds runs of the unchanged tree)
VERIF_EVIDENCE_DIR=/verif/work/seed_evidence ./check "$prop" quick > "$out/check_output.txt" 2>&1; rc=$?
git -C /repo apply -R "$src/patch.diff" || res "WARNING: could not reverse the patch in /repo"
res "check $prop quick with change: exit $rc, $(grep -c '^VIOLATION' "$out/check_output.txt") VIOLATION lines"
grep '^VIOLATION\|^  obligation' "$out/check_output.txt" | head -12 >> "$log"
res "confirmed=$ok detected=$([ $rc = 1 ] && echo yes || echo no)"
