module c05bounded

go 1.25

require oss.terrastruct.com/d2 v0.0.0

require (
	golang.org/x/exp v0.0.0-20240909161429-701f63a606c0 // indirect
	golang.org/x/text v0.22.0 // indirect
	golang.org/x/xerrors v0.0.0-20240903120638-7835f813f4da // indirect
	oss.terrastruct.com/util-go v0.0.0-20250213174338-243d8661088a // indirect
)

replace oss.terrastruct.com/d2 => /repo
