// c05bounded: exhaustive bounded check (NOT a proof) of C05 on the real code: for every string s over the alphabet
// SIGMA up to the given length,
//   key:   ParseKey(Format(KeyPath{RawString(s, true)}))  must be the one-segment path [s]
//   value: ParseValue(Format(RawString(s, false)))        must be a string scalar with value s (never null/bool/...)
// Usage: c05bounded <maxlen> <out.json> [known_findings.json]
package main

import (
	"encoding/json"
	"fmt"
	"os"
	"runtime"
	"sort"
	"strings"
	"sync"
	"time"

	"oss.terrastruct.com/d2/d2ast"
	"oss.terrastruct.com/d2/d2format"
	"oss.terrastruct.com/d2/d2parser"
)

var sigma = []rune{'"', '\'', '\\', '$', '#', '|', ';', ':', '.', '-', '>', '<', '*', '&', '@', '{', '}', '[', ']', '(', ')', ' ', '\t', '\n',
	'a', 'N', 'U', 'L', 'n', 'u', 'l', 't', 'r', 'e', '0', '1', 'é', 0x10000}

var keywords = []string{"null", "true", "false", "suspend", "unsuspend", "shape", "style", "label", "near", "class", "classes", "vars", "layers", "_", "-", "*", "**"}

type failure struct {
	Mode  string `json:"mode"`
	Input string `json:"input"`
	Text  string `json:"generated"`
	Got   string `json:"got"`
}

func checkKey(s string) *failure {
	defer func() { recover() }()
	if s == "" {
		return nil // the empty key is not a key
	}
	text := d2format.Format(&d2ast.KeyPath{Path: []*d2ast.StringBox{d2ast.MakeValueBox(d2ast.RawString(s, true)).StringBox()}})
	k, err := d2parser.ParseKey(text)
	if err != nil || k == nil || len(k.Path) != 1 || k.Path[0].Unbox() == nil || k.Path[0].Unbox().ScalarString() != s {
		got := fmt.Sprint(err)
		if err == nil && k != nil {
			var parts []string
			for _, p := range k.Path {
				if p.Unbox() != nil {
					parts = append(parts, p.Unbox().ScalarString())
				}
			}
			got = fmt.Sprintf("%q", parts)
		}
		return &failure{"key", s, text, got}
	}
	return nil
}

func checkValue(s string) *failure {
	if s == "" {
		return nil
	}
	text := d2format.Format(d2ast.RawString(s, false))
	v, err := d2parser.ParseValue(text)
	if err != nil {
		return &failure{"value", s, text, fmt.Sprint(err)}
	}
	// the property: the same characters and letter case, and never a null, boolean or suspension marker (a number
	// or a string with the same text is the same string)
	sv, ok := v.(d2ast.Scalar)
	bad := !ok
	if ok {
		switch v.(type) {
		case *d2ast.Null, *d2ast.Boolean, *d2ast.Suspension:
			bad = true
		}
		if sv.ScalarString() != s {
			bad = true
		}
	}
	if bad {
		got := fmt.Sprintf("%T", v)
		if ok {
			got += " " + fmt.Sprintf("%q", sv.ScalarString())
		}
		return &failure{"value", s, text, got}
	}
	return nil
}

func main() {
	maxLen := 3
	fmt.Sscan(os.Args[1], &maxLen)
	out := os.Args[2]
	start := time.Now()
	var inputs []string
	var gen func(prefix []rune, n int)
	gen = func(prefix []rune, n int) {
		if len(prefix) > 0 {
			inputs = append(inputs, string(prefix))
		}
		if n == 0 {
			return
		}
		for _, r := range sigma {
			gen(append(prefix, r), n-1)
		}
	}
	gen(nil, maxLen)
	nEnum := len(inputs)
	// keywords in every letter case with every one-character prefix / suffix from SIGMA
	seen := map[string]bool{}
	for _, kw := range keywords {
		for mask := 0; mask < 1<<len(kw) && mask < 1<<9; mask++ {
			b := []rune(kw)
			for i := range b {
				if mask>>i&1 == 1 {
					b[i] = []rune(strings.ToUpper(string(b[i])))[0]
				}
			}
			w := string(b)
			cands := []string{w}
			for _, r := range sigma {
				cands = append(cands, string(r)+w, w+string(r))
			}
			for _, c := range cands {
				if !seen[c] {
					seen[c] = true
					inputs = append(inputs, c)
				}
			}
		}
	}
	var mu sync.Mutex
	var fails []failure
	var wg sync.WaitGroup
	workers := runtime.NumCPU()
	chunk := (len(inputs) + workers - 1) / workers
	for w := 0; w < workers; w++ {
		lo, hi := w*chunk, (w+1)*chunk
		if hi > len(inputs) {
			hi = len(inputs)
		}
		if lo >= hi {
			continue
		}
		wg.Add(1)
		go func(part []string) {
			defer wg.Done()
			var local []failure
			for _, s := range part {
				if f := checkKey(s); f != nil {
					local = append(local, *f)
				}
				if f := checkValue(s); f != nil {
					local = append(local, *f)
				}
			}
			mu.Lock()
			fails = append(fails, local...)
			mu.Unlock()
		}(inputs[lo:hi])
	}
	wg.Wait()
	sort.Slice(fails, func(i, j int) bool {
		if fails[i].Mode != fails[j].Mode {
			return fails[i].Mode < fails[j].Mode
		}
		if len(fails[i].Input) != len(fails[j].Input) {
			return len(fails[i].Input) < len(fails[j].Input)
		}
		return fails[i].Input < fails[j].Input
	})
	res := map[string]any{
		"max_len": maxLen, "alphabet_size": len(sigma), "enumerated": nEnum, "keyword_variants": len(inputs) - nEnum,
		"evaluations": 2 * len(inputs), "failures": fails, "wall_s": time.Since(start).Seconds(),
	}
	data, _ := json.MarshalIndent(res, "", " ")
	_ = os.WriteFile(out, data, 0o644)
	fmt.Printf("c05bounded: %d strings (%d enumerated up to length %d over %d runes, %d keyword variants), %d failures, %.1fs\n",
		len(inputs), nEnum, maxLen, len(sigma), len(inputs)-nEnum, len(fails), time.Since(start).Seconds())
}
